#!/usr/bin/env python3
"""Rewrites the 'quick wall' column of DESIGN.md section 0.2 from evidence/<id>.json (wall seconds of the last run)."""
import json, os, re
V = os.path.dirname(os.path.dirname(os.path.abspath(__file__)))
p = os.path.join(V, "DESIGN.md")
s = open(p).read()
out = []
for line in s.splitlines():
    m = re.match(r"\| (C\d\d) \| (.*) \| ([^|]*) \|$", line)
    ev = os.path.join(V, "evidence", (m.group(1) if m else "x") + ".json")
    if m and os.path.exists(ev) and "quick wall" not in line:
        e = json.load(open(ev))
        w = e.get("wall_s")
        if w is not None:
            line = f"| {m.group(1)} | {m.group(2)} | {round(float(w) / 60, 1)} min |"
    out.append(line)
open(p, "w").write("\n".join(out) + "\n")
