#!/bin/sh
# evaluates every seeded change against its property's quick check, one after the other
cd /verif
for d in seeded/C*-*; do n=$(basename $d); tools/seed_eval.sh $n ${n%-*}; done
python3 tools/seed_meta.py
