#!/usr/bin/env python3
"""Rewrites the seed table in DESIGN.md (between the SEEDTABLE markers) from seeded/*/meta.json."""
import glob, json, os, re
V = os.path.dirname(os.path.dirname(os.path.abspath(__file__)))
rows = []
for d in sorted(glob.glob(os.path.join(V, "seeded", "C*-*"))):
    m = json.load(open(os.path.join(d, "meta.json")))
    seed = os.path.basename(d)
    caught = ", ".join(m.get("caught_by_checks") or []) or "NO"
    rows.append((seed, caught, "yes" if m.get("missed_by_the_check_when_first_tried") else ""))
# compact: one line per property
by = {}
for seed, caught, missed in rows:
    by.setdefault(seed[:3], []).append(f"{seed[4:]}→{caught}{'*' if missed else ''}")
lines = ["| property | seed → catching quick check(s); * = first missed by the property's own check, which was then strengthened |", "|---|---|"]
for p in sorted(by):
    lines.append(f"| {p} | " + "; ".join(by[p]) + " |")
n = len(rows); c = sum(1 for r in rows if r[1] != "NO"); fm = sum(1 for r in rows if r[2])
block = f"<!-- SEEDTABLE:BEGIN -->\n{c} of {n} seeds caught by a quick check; {fm} were first missed by their property's check.\n\n" + "\n".join(lines) + "\n<!-- SEEDTABLE:END -->"
p = os.path.join(V, "DESIGN.md")
s = open(p).read()
s2 = re.sub(r"<!-- SEEDTABLE:BEGIN -->.*<!-- SEEDTABLE:END -->", lambda _m: block, s, flags=re.S)
assert s2 != s or block in s
open(p, "w").write(s2)
print(c, "of", n, "first missed", fm)
