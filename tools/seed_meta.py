#!/usr/bin/env python3
"""Writes seeded/<dir>/meta.json and seeded/SUMMARY.md from the verification and evaluation logs."""
import glob, json, os, re
V = os.path.dirname(os.path.dirname(os.path.abspath(__file__)))
rows = []
for d in sorted(glob.glob(os.path.join(V, "seeded", "C*-*"))):
    name = os.path.basename(d)
    prop, x = name.split("-")
    notes = open(os.path.join(d, "notes.md")).read() if os.path.exists(os.path.join(d, "notes.md")) else ""
    ver = {}
    vl = f"/tmp/seed/verify_{prop}_{x}.log"
    if os.path.exists(vl):
        m = re.search(r"RESULT \S+ \S+ demo_clean_rc=(\d+) demo_patched_rc=(\d+) tests_rc=(\d+)", open(vl).read())
        if m:
            ver = {"demo_on_clean_tree_rc": int(m.group(1)), "demo_on_patched_tree_rc": int(m.group(2)), "baseline_suite_stable_tests_all_pass": m.group(3) == "0"}
    old = {}
    if os.path.exists(os.path.join(d, "meta.json")):
        old = json.load(open(os.path.join(d, "meta.json")))
    ver = ver or old.get("confirmed_here", {})
    evals = []
    if os.path.exists(os.path.join(d, "eval.txt")):
        for line in open(os.path.join(d, "eval.txt")):
            m = re.match(r"EVAL (\S+) (\S+) tier=(\S+) rc=(\d+) (\d+) violation lines; ?(.*)", line.strip())
            if m:
                evals.append({"check": m.group(2), "tier": m.group(3), "exit": int(m.group(4)), "violation_lines": int(m.group(5)), "replays": m.group(6).strip()})
    latest = {}
    for e in evals:
        latest[e["check"]] = e  # the most recent evaluation per check
    caught_by = sorted(c for c, e in latest.items() if e["exit"] == 1 and e["violation_lines"] > 0)
    own = [e for e in evals if e["check"] == prop]
    last = own[-1] if own else (evals[-1] if evals else None)
    first = own[0] if own else None
    meta = {
        "breaks_property": prop,
        "patch": "patch.diff",
        "demonstration": "demo.py (exit 0 + PASS on the clean tree, exit 1 + FAIL with the patch; run as: cd <worktree> && PYTHONPATH=<worktree> /venv/bin/python demo.py)",
        "needs_to_manifest": (re.sub(r"\s+", " ", notes)[:900]),
        "written_by": "fresh sub-agent given only the property text and a scratch git worktree of /repo",
        "confirmed_here": ver,
        "what_was_run": "tools/seed_verify.sh (demo on clean and patched scratch worktree; full baseline pytest command on the patched worktree compared with BASELINE.json stable_pass); tools/seed_eval.sh (the property's check against a scratch worktree with the patch applied, VERIF_REPO)",
        "check_results": evals,
        "detected_by_current_quick_check": bool(caught_by),
        "caught_by_checks": caught_by,
        "missed_by_the_check_when_first_tried": bool(first and first["exit"] != 1),
    }
    json.dump(meta, open(os.path.join(d, "meta.json"), "w"), indent=1)
    rows.append((name, prop, caught_by, meta["missed_by_the_check_when_first_tried"], last))
with open(os.path.join(V, "seeded", "SUMMARY.md"), "w") as f:
    f.write("# Seeded changes and which check catches them\n\nA/B = first round of sub-agents, C/D = second round (told which places were already used). "
            "Every change was confirmed here (demo passes clean / fails patched, 538 stable baseline tests still pass).\n\n"
            "| seed | property | caught by quick check(s) | first missed by its property's check (check then strengthened) | last result of its property's check |\n|---|---|---|---|---|\n")
    for name, prop, det, missed, last in rows:
        f.write(f"| {name} | {prop} | {', '.join(det) if det else 'NO'} | {'yes' if missed else ''} | {('exit %d, %d VIOLATION line(s)' % (last['exit'], last['violation_lines'])) if last else 'not evaluated'} |\n")
print(sum(1 for r in rows if r[2]), "of", len(rows), "caught")
