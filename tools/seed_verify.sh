#!/bin/sh
# usage: [SEEDROOT=/tmp/seed2 LABEL=C] seed_verify.sh <PID> <X>      e.g. C03 A
# Confirms an agent-made mutation in its scratch worktree $SEEDROOT/<PID>: demo passes clean,
# fails patched; full baseline suite still passes patched. Then files it under /verif/seeded/<PID>-<LABEL or X>/.
PID=$1; X=$2; ROOT=${SEEDROOT:-/tmp/seed}; L=${LABEL:-$X}; WT=$ROOT/$PID; OUT=$WT/out
LOG=/tmp/seed/verify_${PID}_${L}.log
exec > $LOG 2>&1
cd $WT || exit 2
git checkout -q -- . ; git status --short | grep -v '^??'
echo "== demo on clean tree"; PYTHONPATH=$WT timeout 600 /venv/bin/python out/demo_$X.py > /tmp/seed/${PID}_${L}_clean.out 2>&1; RC_CLEAN=$?; tail -3 /tmp/seed/${PID}_${L}_clean.out; echo rc=$RC_CLEAN
git apply out/patch_$X.diff || { echo "PATCH DOES NOT APPLY"; exit 2; }
echo "== demo on patched tree"; PYTHONPATH=$WT timeout 600 /venv/bin/python out/demo_$X.py > /tmp/seed/${PID}_${L}_patched.out 2>&1; RC_PATCHED=$?; tail -5 /tmp/seed/${PID}_${L}_patched.out; echo rc=$RC_PATCHED
echo "== full suite on patched tree"
PYTHONPATH=$WT timeout 3000 /venv/bin/python -m pytest -q -p no:cacheprovider --timeout=900 --continue-on-collection-errors --junitxml=/tmp/seed/${PID}_${L}_junit.xml > /tmp/seed/${PID}_${L}_pytest.log 2>&1
tail -1 /tmp/seed/${PID}_${L}_pytest.log
python3 /tmp/seed/baseline_compare.py /tmp/seed/${PID}_${L}_junit.xml; RC_TESTS=$?
git checkout -q -- . ; git clean -fdq -e out
D=/verif/seeded/${PID}-${L}; mkdir -p $D
cp out/patch_$X.diff $D/patch.diff; cp out/demo_$X.py $D/demo.py; cp out/notes_$X.md $D/notes.md 2>/dev/null
echo "RESULT $PID $L demo_clean_rc=$RC_CLEAN demo_patched_rc=$RC_PATCHED tests_rc=$RC_TESTS"
