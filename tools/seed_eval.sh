#!/bin/sh
# usage: seed_eval.sh <seeded-dir-name> <PROP> [tier]   e.g. C03-A C03
# Applies /verif/seeded/<dir>/patch.diff to /repo, runs the property's check, reverts /repo.
D=/verif/seeded/$1; P=$2; T=${3:-quick}
cd /repo && git status --short | grep -v '^??' && { echo "/repo not clean"; exit 2; }
git -C /repo apply $D/patch.diff || exit 2
cd /verif && ./check $P --tier $T --no-evidence > /tmp/seed/eval_$1_$P.log 2>&1; RC=$?
git -C /repo checkout -- .
echo "EVAL $1 $P tier=$T rc=$RC $(grep -c "^VIOLATION" /tmp/seed/eval_$1_$P.log) violation lines; $(grep "^VIOLATION" /tmp/seed/eval_$1_$P.log | head -3 | tr "\n" " ")" >> $D/eval.txt
echo "EVAL $1 $P tier=$T rc=$RC $(grep -c '^VIOLATION' /tmp/seed/eval_$1_$P.log) violation lines"; grep "^VIOLATION\|^INCONCLUSIVE" /tmp/seed/eval_$1_$P.log | head -5
