#!/bin/sh
# usage: seed_eval.sh <seeded-dir-name> <PROP> [tier]   e.g. C03-A C03
# Applies /verif/seeded/<dir>/patch.diff in a scratch worktree of /repo HEAD and runs the property's
# check against it (VERIF_REPO), leaving /repo untouched; removes the worktree afterwards.
D=/verif/seeded/$1; P=$2; T=${3:-quick}
W=/tmp/seedrepo/$1_$P
rm -rf $W; git -C /repo worktree prune; git -C /repo worktree add --detach $W HEAD -q || exit 2
git -C $W apply $D/patch.diff || { echo "patch does not apply"; git -C /repo worktree remove --force $W; exit 2; }
cd /verif && VERIF_REPO=$W ./check $P --tier $T --no-evidence > /tmp/seed/eval_$1_$P.log 2>&1; RC=$?
git -C /repo worktree remove --force $W
echo "EVAL $1 $P tier=$T rc=$RC $(grep -c '^VIOLATION' /tmp/seed/eval_$1_$P.log) violation lines; $(grep '^VIOLATION' /tmp/seed/eval_$1_$P.log | head -3 | tr '\n' ' ')" >> $D/eval.txt
echo "EVAL $1 $P tier=$T rc=$RC $(grep -c '^VIOLATION' /tmp/seed/eval_$1_$P.log) violation lines"; grep "^VIOLATION\|^INCONCLUSIVE" /tmp/seed/eval_$1_$P.log | head -4
