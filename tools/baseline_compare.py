#!/usr/bin/env python3
"""Compare a junit xml of the baseline command with /root/.vp/BASELINE.json stable_pass."""
import json, sys, xml.etree.ElementTree as ET
base = set(json.load(open("/root/.vp/BASELINE.json"))["stable_pass"])
passed = set()
for tc in ET.parse(sys.argv[1]).getroot().iter("testcase"):
    if not any(c.tag in ("failure", "error", "skipped") for c in tc):
        passed.add(f"{tc.get('classname')}::{tc.get('name')}")
missing = sorted(base - passed)
print(f"stable_pass={len(base)} passed_now={len(passed)} stable_but_not_passing={len(missing)}")
for m in missing[:40]:
    print("  MISSING", m)
sys.exit(1 if missing else 0)
