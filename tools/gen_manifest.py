#!/usr/bin/env python3
"""Regenerates /verif/MANIFEST.json from the table below (keeps it schema-valid)."""
import json, os
V = os.path.dirname(os.path.dirname(os.path.abspath(__file__)))
TB = ("Trusted: CrossHair 0.0.110 proxies and z3 5.1.0; shims S1-S10 (vp/shims_list.py); the harness oracles; "
      "csvpath text is concrete (templates), the csv module/file system are environment. Bounded: see evidence per obligation.")
CHECKS = {
 "C02": dict(
   text="Bounded symbolic execution (CrossHair+z3) of the real PLY productions, Scanner.includes/is_last and CsvPath.next: "
        "for each scan shape (*, N*, N, a-b either order, '+' lists of up to 3-4 terms) every combination of bounds 0..12 and "
        "every line 0..13 is decided by the solver against the set denotation; run level: 7 records with symbolic blank flags.",
   design="3/C02", technique="symbolic execution of the real scanner productions + run loop (CrossHair/z3), all paths within bounds"),
}
NA = {
}
def main():
    props = [json.loads(l)["id"] for l in open(os.path.join(V, "properties.jsonl"))]
    checks = []
    for pid in props:
        if pid in CHECKS:
            c = CHECKS[pid]
            checks.append({
                "property_id": pid,
                "quick_cmd": f"./check {pid} --tier quick",
                "thorough_cmd": f"./check {pid} --tier thorough",
                "evidence_file": f"evidence/{pid}.json",
                "replay_cmd_template": "./check --replay {path}",
                "engine": c.get("engine", "E1 crosshair+z3"),
                "level_claimed": {"category": "other", "text": c["text"], "design_ref": c["design"]},
                "level_note": c.get("note", TB),
                "technique": c["technique"],
            })
    na = [{"property_id": p, "reason": NA.get(p, "no check built yet in this round (see DESIGN.md for the plan)")} for p in props if p not in CHECKS]
    m = {
        "version": 1,
        "setup_cmd": "./setup.sh",
        "hooks": {"guard": "CSVPATH_VERIF", "enable": "none needed: all instrumentation is harness-side monkeypatching; /repo is imported as is",
                  "baseline_off_cmd": "cd /repo && /venv/bin/python -m pytest -ra -q -p no:cacheprovider --timeout=900 --continue-on-collection-errors",
                  "source_commits": [], "add_only": True},
        "engines": [
            {"name": "E1 crosshair+z3", "path": "vp/worker.py", "serves_properties": sorted(CHECKS), "kind_free_text": "symbolic execution of csvpath's own python objects; z3 decides every branch and assertion"},
        ],
        "checks": checks,
        "notes": "exit 0 discharged / 1 VIOLATION (replayed natively) / 3 inconclusive. known_findings.json lists recorded and fixed defects.",
        "not_applicable": na,
    }
    json.dump(m, open(os.path.join(V, "MANIFEST.json"), "w"), indent=1)
    import jsonschema  # optional
    jsonschema.validate(m, json.load(open("/root/.vp/MANIFEST.schema.json")))
    print("MANIFEST ok:", len(checks), "checks,", len(na), "not applicable")
if __name__ == "__main__":
    main()
