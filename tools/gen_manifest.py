#!/usr/bin/env python3
"""Regenerates /verif/MANIFEST.json from the table below (keeps it schema-valid)."""
import json, os
V = os.path.dirname(os.path.dirname(os.path.abspath(__file__)))
TB = ("Trusted: CrossHair 0.0.110 proxies and z3 5.1.0; shims S1-S10 (vp/shims_list.py); the harness oracles; "
      "csvpath text is concrete (templates), the csv module/file system are environment. Bounded: see evidence per obligation.")
CHECKS = {
 "C02": dict(
   text="Bounded symbolic execution (CrossHair+z3) of the real PLY productions, Scanner.includes/is_last and CsvPath.next: "
        "for each scan shape (*, N*, N, a-b either order, '+' lists of up to 3-4 terms) every combination of bounds 0..12 and "
        "every line 0..13 is decided by the solver against the set denotation; run level: 7 records with symbolic blank flags.",
   design="3/C02", technique="symbolic execution of the real scanner productions + run loop (CrossHair/z3), all paths within bounds"),
}
CHECKS.update({
 "C03": dict(
   text="Bounded symbolic execution of real CsvPath runs: assignment chains, tracking-keyed assignments with qualifiers, one-step "
        "push/pop/peek from a symbolic stack pre-state, per-line count_lines/count_scans/line_number/count and scan/match counters "
        "under symbolic scan start, match threshold and blank flags (incl. a blank first record), and the named bookkeeping of "
        "tally/count(x)/subtotal/first/sum/counter/every; each compared with a left-to-right fold written from the docs.",
   design="3/C03", technique="symbolic execution of real runs vs reference folds (CrossHair/z3), all paths within bounds"),
 "C05": dict(
   text="Kernel: ErrorHandler.handle_error for all 2^6 policy subsets x 3^4 validation-mode overrides (symbolic). In run: a fault of "
        "five kinds on a symbolic line under a symbolic policy, with and without validation-mode comments and with a stop() on the "
        "same line: raised/collected/stopped/failed/printed exactly as the policy says, line k does not match, side effects before/after.",
   design="3/C05", technique="symbolic execution of the real error handler and of faulting runs (CrossHair/z3), all paths within bounds"),
 "C07": dict(
   text="Relational symbolic execution: three fresh real CsvPath objects run collect(), next() and fast_forward() on the same symbolic "
        "inputs (firing line, advance count, blank flags) for templates with stop/skip/advance/last/print/fail/error; equal lines and "
        "equal state is asserted on every path; collect(nexts=n) for symbolic n against the cut run.",
   design="3/C07", technique="relational symbolic execution of the three run methods (CrossHair/z3), all paths within bounds"),
 "C13": dict(
   text="Bounded symbolic execution of real runs with stop/skip/advance at first/middle/last position firing on a symbolic line, "
        "symbolic advance count, symbolic interior/trailing blank flags, and last() under a symbolic scan end; returned lines, pushes "
        "before/after the control component and counters compared with a fold written from the docs.",
   design="3/C13", technique="symbolic execution of real runs vs reference fold (CrossHair/z3), all paths within bounds"),
 "C14": dict(
   text="One real _consider_line of '[@x.<quals> = @y  @m.asbool]' with all 8 qualifier flags, the pre-state of x, the new value y "
        "(Optional ints) and the rest-of-line vote symbolic: write and line result equal the table of docs/assignment.md on every path "
        "(inductive step: covers value sequences of any length within the int window).",
   design="3/C14", engine="E3 AST->z3 + E1 crosshair", technique="AST->SMT translation of the assignment kernel (z3, one query over all qualifier subsets and all Optional[int]) + symbolic execution of the real assignment path"),
})
CHECKS.update({
 "C01": dict(
   text="One real _consider_line per operator with symbolic Optional-int operands (and symbolic numeric cells): the vote of ~30 "
        "documented comparison/boolean/math/'=='/'->'/assignment forms equals a reference written from docs/functions/*.md on every "
        "path; composition of 2-4 components under AND/OR over a 4-record file with symbolic thresholds and blank flags. Known "
        "findings (lt is <=, numeric cells / float-vs-int compared as text, sentinel value) are listed and carved out.",
   design="3/C01", technique="symbolic execution of real match evaluation vs documented semantics (CrossHair/z3), all paths within bounds"),
 "C04": dict(
   text="Real runs with fail()/fail_and_stop()/fail_all()/fail.onmatch() firing on a symbolic line, stop/skip before them, a handled "
        "error under a symbolic policy: per-line valid()/failed(), final is_valid and returned lines equal a fold; verdict monotone. "
        "Aggregation over 1-4 real Result objects with symbolic verdicts / error counts is the conjunction / sum.",
   design="3/C04", technique="symbolic execution of real runs and of the aggregation code (CrossHair/z3), all paths within bounds"),
 "C06": dict(
   text="csv module = environment (stub reader). Symbolic delimiter/quotechar reach every reader unchanged; records with symbolic "
        "cells (any unicode) plus ragged/blank records come back cell for cell from collect() and next(); headers are the cleaned "
        "first non-blank record; #name and #index read the same cell and a missing cell reads as absent for a symbolic row length.",
   design="3/C06", technique="symbolic execution of line delivery and header handling (CrossHair/z3), all paths within bounds",
   note=TB + " csv.reader/csv.writer themselves are trusted (C boundary)."),
 "C15": dict(
   text="MetadataParser on '~ free key: value ~ path' with free text, key and value chosen symbolically over class-representative "
        "alphabets: path unchanged, metadata[key] == value. Runs under each mode comment with symbolic threshold and blank flags: "
        "return-mode partitions, unmatched-mode keep partitions, no-run reads nothing, print-mode removes only stdout.",
   design="3/C15", technique="symbolic execution of the metadata parser and of runs under each mode (CrossHair/z3), all paths within bounds"),
 "C16": dict(
   text="The real LarkPrintTransformer/PrintParser run on trees parsed from a representative of each arrangement with TEXT/SENTINEL "
        "token values replaced by symbolic strings: output = input with references replaced, every other character in place; "
        "reference lookup with symbolic values/indexes/length (falsy values included); onmatch/once run-level with symbolic threshold. "
        "Counterexamples are replayed through the real Lark grammar.",
   design="3/C16", technique="symbolic execution of the print transformer with symbolic token values (CrossHair/z3), all paths within bounds"),
})
CHECKS.update({
 "C17": dict(
   text="z3 regular-language queries generated from the live Lark object: for every grammatical match part of <= 7 (thorough 8) "
        "tokens, over all token texts and all white-space layouts (>= 1 between components), no text has a second reading (different "
        "token-type sequence or component segmentation) nor a second split into the same token types; models are replayed through the "
        "real Earley parser. CrossHair obligations for name/qualifier splitting, token callbacks (names, int literals around 2^53) and "
        "outer comments containing '$'.",
   design="2.2, 3/C17", engine="E2 z3 queries + E1 crosshair", technique="SMT (z3 regular languages / strings) over the extracted grammar + symbolic execution of token callbacks"),
})
WEAK = (" The members' symbolic ints are realised when the archive/results are written, so the solver drives a walk over a small "
        "integer box with one data fixture (weak on data); each path still ends in a z3-checked assertion.")
CHECKS.update({
 "C08": dict(
   text="Relational check over a real CsvPaths in a scratch directory: each member of a 2-3 member group (symbolic thresholds / stop "
        "line supplied through external functions, symbolic if_all_agree) is run standalone, by collect_paths and by collect_by_line; "
        "lines, variables, printouts, validity and counters must agree per member and the breadth-first caller must see the "
        "union/intersection per line.",
   design="3/C08", technique="relational symbolic execution of standalone / serial / breadth-first runs (CrossHair/z3) over small boxes", note=TB + WEAK),
 "C09": dict(
   text="A real named-paths run whose members stop, fail or hit an error on symbolic lines; afterwards the archive is read back: run "
        "manifest status/all_valid/all_completed/error_count, member meta/vars/errors/manifest, vars.json = variables, errors.json = "
        "errors, printouts.txt = printouts, data.csv/unmatched.csv = expected lines, fingerprints = sha256 of the bytes on disk.",
   design="3/C09", technique="symbolic execution of archiving runs + read-back oracle (CrossHair/z3) over small boxes", note=TB + WEAK),
 "C10": dict(
   text="z3 integer-arithmetic queries generated from the strftime/strptime literals in the source: over all clock readings directory "
        "names parse back in chronological order, are injective per second and collision suffixes never reorder seconds. CrossHair: "
        "3-run histories with symbolic {group, reused instance, same second} choices write one new directory under their own group and "
        "leave every earlier file byte-identical.",
   design="2.1, 3/C10", engine="E2 z3 queries + E1 crosshair", technique="SMT (LIA) over format literals from the AST + symbolic execution of run histories", note=TB + WEAK),
 "C12": dict(
   text="cvc5 word-equation query built from the join f-string and split marker in the source: the stored group file splits back into "
        "exactly its members (<= 20 chars). CrossHair: selection by identity ('g#id', '$g.csvpaths.id', ':from', ':to', key precedence) "
        "over a symbolic index box for 3 members; manifest grows by one entry iff content changed and fingerprints the stored file.",
   design="2.3, 3/C12", engine="E2 cvc5 query + E1 crosshair", technique="SMT (strings, cvc5) over literals from the AST + symbolic execution of PathsManager", note=TB + WEAK),
 "C18": dict(
   text="A real named-paths run under a 'raise' policy with the abort point (member, line) symbolic incl. 'none', for serial and "
        "breadth-first methods: exception reaches the caller, run manifest not complete, started members have readable "
        "meta/vars/errors naming the line and completed false, earlier members intact, inputs stores byte-identical, a second run on "
        "the same instance archives in its own directory.",
   design="3/C18", technique="symbolic execution of aborting runs + read-back oracle (CrossHair/z3) over the abort-point box", note=TB + WEAK),
 "C20": dict(
   text="Chains of 3 filters with source-mode preceding and symbolic thresholds: each member's data.csv equals the fold over its "
        "predecessor's output and its manifest names that file. References from a later group: $g.variables.v[.k], $g.headers.h "
        "(ragged rows) and '$g.results.:last.a' as a file after one or two runs with symbolic values.",
   design="3/C20", technique="symbolic execution of chained runs and reference resolution (CrossHair/z3) over small boxes", note=TB + WEAK),
})
NA = {
 "C11": "a history of OS/C-library effects (copy, rename, sha256, json) on concrete bytes: nothing symbolic remains; enumeration of histories is outside solver-based checking (DESIGN 4)",
 "C19": "process-global state and on-disk cache round-trips through the C-level csv/json modules: CrossHair realises everything at those boundaries, nothing symbolic remains (DESIGN 4)",

}
def main():
    props = [json.loads(l)["id"] for l in open(os.path.join(V, "properties.jsonl"))]
    checks = []
    for pid in props:
        if pid in CHECKS:
            c = CHECKS[pid]
            checks.append({
                "property_id": pid,
                "quick_cmd": f"./check {pid} --tier quick",
                "thorough_cmd": f"./check {pid} --tier thorough",
                "evidence_file": f"evidence/{pid}.json",
                "replay_cmd_template": "./check --replay {path}",
                "engine": c.get("engine", "E1 crosshair+z3"),
                "level_claimed": {"category": "other", "text": c["text"], "design_ref": c["design"]},
                "level_note": c.get("note", TB),
                "technique": c["technique"],
            })
    na = [{"property_id": p, "reason": NA.get(p, "no check built yet in this round (see DESIGN.md for the plan)")} for p in props if p not in CHECKS]
    m = {
        "version": 1,
        "setup_cmd": "./setup.sh",
        "hooks": {"guard": "CSVPATH_VERIF", "enable": "none needed: all instrumentation is harness-side monkeypatching; /repo is imported as is",
                  "baseline_off_cmd": "cd /repo && /venv/bin/python -m pytest -ra -q -p no:cacheprovider --timeout=900 --continue-on-collection-errors",
                  "source_commits": [], "add_only": True},
        "engines": [
            {"name": "E1 crosshair+z3", "path": "vp/worker.py", "serves_properties": sorted(CHECKS), "kind_free_text": "symbolic execution of csvpath's own python objects; z3 decides every branch and assertion"},
            {"name": "E3 AST->z3", "path": "vp/e3_pyk2smt.py", "serves_properties": ["C14"], "kind_free_text": "translation of a loop-free python kernel (read with inspect/ast) into z3 terms; one query over all qualifier subsets and all Optional[int] operands"},
            {"name": "E2 z3 queries", "path": "harness/c17_grammar.py", "serves_properties": ["C10", "C12", "C17"], "kind_free_text": "solver queries generated from artefacts compiled into the source (Lark grammar, format literals)"},
        ],
        "checks": checks,
        "notes": "exit 0 discharged / 1 VIOLATION (replayed natively) / 3 inconclusive. known_findings.json lists recorded and fixed defects.",
        "not_applicable": na,
    }
    json.dump(m, open(os.path.join(V, "MANIFEST.json"), "w"), indent=1)
    import jsonschema  # optional
    jsonschema.validate(m, json.load(open("/root/.vp/MANIFEST.schema.json")))
    print("MANIFEST ok:", len(checks), "checks,", len(na), "not applicable")
if __name__ == "__main__":
    main()
