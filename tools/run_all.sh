#!/bin/sh
# runs every registered check (quick tier by default) in /verif against /repo and prints exit code and wall time per check
cd /verif
T=${1:-quick}
for p in $(python3 -c "import json; print(' '.join(c['property_id'] for c in json.load(open('MANIFEST.json'))['checks']))"); do
  s=$(date +%s); ./check $p --tier $T > /tmp/runall_$p.log 2>&1; rc=$?; e=$(date +%s)
  echo "$p rc=$rc wall=$((e-s))s $(tail -1 /tmp/runall_$p.log | cut -c1-120)"
done
