"""C06 - lines are delivered as they are in the file; headers are the first data line.

The csv module is environment (stub reader S6 = "any sequence of records").
O1 dialect wiring: the instance's delimiter/quotechar (symbolic 1-char strings) reach every
   reader the run creates (LineCounter pass and data pass) unchanged.
O2 identity: collect()/next() over records containing symbolic cells (any unicode incl. quote,
   delimiter, newline, blank) plus concrete ragged and blank records: same count, text, order.
O3 headers = clean(first non-blank record) per docs (trimmed; ';' ',' '|' tab '`' removed).
O4 '#name' and '#index' address the same cell; a header missing from a short row reads as
   absent (None / does not exist), for a symbolic row length.
"""
from typing import List, Optional, Tuple

from crosshair.tracers import NoTracing

from vp.kit import fresh, StubReader, CapPrinter
from vp.ob import ob, product
from csvpath import CsvPath

ENC = ["csvpath/csvpath.py:CsvPath.parse/get_total_lines_and_headers/_next_line/next/collect/limit_collection",
       "csvpath/util/line_counter.py:LineCounter.get_lines_and_headers/clean_headers",
       "csvpath/util/file_readers.py:DataFileReader.__new__ (stubbed for 'SYM')"]


@ob(
    "C06",
    "O1-dialect-wiring",
    pre=["len(d) == 1 and len(q) == 1"],
    post="_[0] >= 2 and _[1]",
    bound="delimiter and quotechar symbolic 1-character strings set on the CsvPath; every DataFileReader created by parse() "
    "(line count + headers) and by the run must receive exactly these two values",
    outside="csv.reader itself; xlsx/S3/pandas readers; CsvPaths.next_by_line (see C08)",
    encodes=ENC,
    tiers={"quick": {"timeout": 300}},
)
def dialect(d: str, q: str) -> Tuple[int, bool]:
    StubReader.RECORDS = [["h", "i"], ["a", "b"]]
    del StubReader.LOG[:]
    with NoTracing():
        p = CsvPath(print_default=False, delimiter=",", quotechar='"')
        p.add_printer(CapPrinter())
    p.delimiter = d
    p.quotechar = q
    p.parse("$SYM[*][yes()]")
    p.collect()
    ok = True
    for kw in StubReader.LOG:
        if kw.get("delimiter") != d or kw.get("quotechar") != q:
            ok = False
    return (len(StubReader.LOG), ok)


@ob(
    "C06",
    "O2-identity",
    pre=["len(a) <= {N} and len(b) <= {N}", "len(a.strip()) > 0 or len(b.strip()) > 0 or True"],
    post="_ == ([['h', 'i'], [a, b], ['x'], ['p', 'q', 'r'], [b, a, ''], ['']], [['h', 'i'], [a, b], ['x'], ['p', 'q', 'r'], [b, a, ''], ['']])",
    bound="records: header, [a, b] with symbolic cells of <= N characters (any unicode: quote, delimiter, newline, blanks), a "
    "short row, a blank record, a long row, a row repeating the symbolic cells, a last record of one empty cell; collect() and next() must deliver the non-blank "
    "records with the same cells, text and order",
    outside="cells longer than N; csv.reader/writer themselves",
    encodes=ENC,
    tiers={"quick": {"timeout": 900, "K": {"N": 1}}, "thorough": {"timeout": 3000, "K": {"N": 2}}},
)
def identity(a: str, b: str) -> Tuple[List[List[str]], List[List[str]]]:
    recs = [["h", "i"], [a, b], ["x"], [], ["p", "q", "r"], [b, a, ""], [""]]
    p, pr = fresh("$SYM[*][yes()]", [["h", "i"], ["1", "2"], ["x"], [], ["p", "q", "r"], ["2", "1", ""], [""]])
    StubReader.RECORDS = recs
    p.get_total_lines_and_headers()
    l1 = p.collect()
    p2, pr2 = fresh("$SYM[*][yes()]", [["h", "i"], ["1", "2"], ["x"], [], ["p", "q", "r"], ["2", "1", ""], [""]])
    StubReader.RECORDS = recs
    p2.get_total_lines_and_headers()
    l2 = [l[:] for l in p2.next()]
    return (l1, l2)


def clean(h):
    return h.strip().replace(";", "").replace(",", "").replace("|", "").replace(chr(9), "").replace("`", "")


@ob(
    "C06",
    "O3-headers",
    pre=["len(a) <= {N}"],
    post="_ == [clean(a), 'i']",
    bound="the first non-blank record is [a, 'i'] with a symbolic (<= N chars, any unicode), preceded by blank records iff "
    "lead (symbolic); headers must be the cleaned cells of that record",
    outside="header cells longer than N",
    encodes=ENC,
    tiers={"quick": {"timeout": 600, "K": {"N": 2}}, "thorough": {"timeout": 2400, "K": {"N": 3}}},
)
def headers_of(a: str, lead: bool) -> List[str]:
    shape = ([[]] if lead else []) + [["h", "i"], ["z", "w"]]
    p, pr = fresh("$SYM[*][yes()]", shape)
    StubReader.RECORDS = ([[]] if lead else []) + [[a, "i"], ["z", "w"]]
    p.get_total_lines_and_headers()
    return list(p.headers)


def cell_oracle(which, n):
    idx = {"b": 1, "c": 2}[which]
    row = ["A", "B", "C"][:n]
    v = row[idx] if idx < n else None
    return (v, v, v is not None, v is not None)


@ob(
    "C06",
    "O4-name-index-short-row",
    pre=["1 <= n <= 3"],
    post="_ == cell_oracle(which, n)",
    bound="headers [a, b, c]; a data row of symbolic length n (1..3); '#name' and '#index' of the 2nd/3rd header: same "
    "value, and absent (None, existence test false) when the row is too short",
    outside="quoted header names; header_reset",
    encodes=ENC + ["csvpath/matching/productions/header.py:Header.to_value/matches", "csvpath/matching/matcher.py:Matcher.header_index"],
    tiers={"quick": {"timeout": 300, "shards": product(which=["b", "c"])}},
)
def name_index(which: str, n: int) -> Tuple[Optional[str], Optional[str], bool, bool]:
    idx = {"b": 1, "c": 2}[which]
    row = ["A", "B", "C"][:n]
    text = '$SYM[1][ @x = #%s  @y = #%d  @ex = exists(#%s)  @ey = exists(#%d) ]' % (which, idx, which, idx)
    p, pr = fresh(text, [["a", "b", "c"], ["A", "B", "C"]])
    StubReader.RECORDS = [["a", "b", "c"], row]
    p.fast_forward()
    v = p.variables
    return (v.get("x"), v.get("y"), v.get("ex"), v.get("ey"))


# ------------------------------------------------------------------ O5 the real CsvDataReader hands the dialect to csv.reader unchanged
class _FakeCsv:
    """stands in for the csv module inside csvpath.util.file_readers: records the dialect, yields fixed records"""

    SEEN = []

    @classmethod
    def reader(cls, file, **kw):
        cls.SEEN.append(kw)
        return iter([["h", "i"], ["a", "b"]])


@ob(
    "C06",
    "O5-reader-dialect",
    pre=["len(d) == 1 and len(q) == 1"],
    post="_ == (d, q, d, q)",
    bound="the real CsvDataReader (constructor and next()) with delimiter and quotechar symbolic 1-character strings (any character, "
    "white space included): csv.reader - replaced by a recording stub - receives exactly these two values; also through DataFileReader(path, ...)",
    outside="csv.reader itself; the None defaults",
    encodes=["csvpath/util/file_readers.py:CsvDataReader.__init__/next", "csvpath/util/file_readers.py:DataFileReader.__new__"],
    tiers={"quick": {"timeout": 300}},
)
def reader_dialect(d: str, q: str) -> Tuple[str, str, str, str]:
    import os
    import csvpath.util.file_readers as fr
    from vp import kit

    path = os.path.join(kit.workdir(), "dialect.csv")
    with NoTracing():
        with open(path, "w") as f:
            f.write("h,i\na,b\n")
        saved = fr.csv
        fr.csv = _FakeCsv
        del _FakeCsv.SEEN[:]
    try:
        r1 = fr.CsvDataReader(path, delimiter=d, quotechar=q)
        for _ in r1.next():
            pass
        r2 = fr.DataFileReader(path, delimiter=d, quotechar=q)
        for _ in r2.next():
            pass
    finally:
        with NoTracing():
            fr.csv = saved
    a, b = _FakeCsv.SEEN[0], _FakeCsv.SEEN[1]
    return (a.get("delimiter"), a.get("quotechar"), b.get("delimiter"), b.get("quotechar"))


def dup_oracle(n):
    row = ["A", "B", "C"][:n]
    return (row[0], row[0], (row[1] if n > 1 else None), (row[1] if n > 1 else None))


@ob(
    "C06",
    "O6-duplicate-header-name",
    pre=["1 <= n <= 3"],
    post="_ == dup_oracle(n)",
    bound="headers [x, y, x] (a repeated name); a data row of symbolic length 1..3: '#x' addresses the same cell as '#0' (the first "
    "column of that name), '#y' the same as '#1'",
    outside="more than one repeated name",
    encodes=ENC + ["csvpath/csvpath.py:CsvPath.header_index", "csvpath/matching/productions/header.py:Header.to_value"],
    tiers={"quick": {"timeout": 300}},
)
def dup_header(n: int) -> Tuple[Optional[str], Optional[str], Optional[str], Optional[str]]:
    row = ["A", "B", "C"][:n]
    p, pr = fresh('$SYM[1][ @a = #x  @b = #0  @c = #y  @d = #1 ]', [["x", "y", "x"], ["A", "B", "C"]])
    StubReader.RECORDS = [["x", "y", "x"], row]
    p.fast_forward()
    v = p.variables
    return (v.get("a"), v.get("b"), v.get("c"), v.get("d"))


# ------------------------------------------------------------------ O7 the real reader, characters that are line boundaries elsewhere
# characters str.splitlines() treats as line boundaries but a csv file does not (only CR/LF end a record), plus controls
ODD = ["\x0b", "\x0c", "\x1c", "\x1d", "\x1e", "\x85", "\u2028", "\u2029", "\t", " ", "a", "\u00e9", "b"]


@ob(
    "C06",
    "O7-real-reader-odd-characters",
    pre=["0 <= i < len(ODD) and 0 <= j < len(ODD)"],
    post="_ == ''",
    bound="the real CsvDataReader and the real csv module over a real 3-record file: one cell (record pos, column col; per shard) holds "
    "'x' + c1 + c2 + 'y' with c1, c2 chosen by symbolic indexes over VT, FF, FS, GS, RS, NEL, LS, PS, tab, blank, letters - unquoted on "
    "disk as csv.writer leaves them: the reader returns the same records, cell for cell (no record is cut in two); the line monitor of a "
    "CsvPath run over the file counts 3 lines",
    outside="CR and LF inside unquoted cells (they do end a record); other characters",
    encodes=["csvpath/util/file_readers.py:CsvDataReader.next", "csvpath/csvpath.py:CsvPath.collect/get_total_lines_and_headers"],
    tiers={"quick": {"timeout": 900, "shards": product(pos=[0, 1, 2], col=[0, 1])}},
)
def real_reader_odd_characters(i: int, j: int, pos: int, col: int) -> str:
    import csv
    import os
    import csvpath.util.file_readers as fr
    from vp import kit

    cell = "x" + ODD[i] + ODD[j] + "y"
    recs = [["h0", "h1"], ["a", "b"], ["c", "d"]]
    recs[pos][col] = cell
    with NoTracing():
        path = os.path.join(kit.workdir(), "odd.csv")
        with open(path, "w", newline="", encoding="utf-8") as f:
            csv.writer(f).writerows(recs)
        got = [list(r) for r in fr.CsvDataReader(path).next()]
        problems = []
        if got != recs:
            problems.append(f"CsvDataReader returned {got!r} for {recs!r}")
        p = CsvPath(print_default=False)
        p.logger.disabled = True
        p.parse(f"${path}[*][ yes() ]")
        lines = [list(x) for x in p.collect()]
        if lines != recs:
            problems.append(f"collect() returned {lines!r}")
        if p.line_monitor.physical_end_line_number != 2:
            problems.append(f"end line number {p.line_monitor.physical_end_line_number}")
    return "; ".join(problems)
