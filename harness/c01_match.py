"""C01 - returned lines are exactly the scanned lines that satisfy the match part.

O1 (operators): one real CsvPath._consider_line per obligation; operands are variables holding
symbolic Optional ints (None = unset), or header cells holding symbolic short strings.  The
expected vote comes from a reference function written from docs/functions/*.md.
O2 (composition): 2-4 components with symbolic thresholds / presence flags over a 4-record
stub file in AND and OR mode, with '->', assignment, nocontrib and a final 'last() ->'.
"""
from typing import List, Optional, Tuple

from vp.kit import fresh
from vp.ob import ob, product

# ------------------------------------------------------------------ O1 operators over ints / None
# name -> (match-part text, reference semantics over (a, b, c), needs: which operands must be non-None)
def _num(*xs):
    return all(x is not None for x in xs)


OPS = {
    "gt": ("gt(@a, @b)", lambda a, b, c: _num(a, b) and a > b),
    "above": ("above(@a, @b)", lambda a, b, c: _num(a, b) and a > b),
    "after": ("after(@a, @b)", lambda a, b, c: _num(a, b) and a > b),
    "gte": ("gte(@a, @b)", lambda a, b, c: _num(a, b) and a >= b),
    "lt": ("lt(@a, @b)", lambda a, b, c: _num(a, b) and a < b),
    "below": ("below(@a, @b)", lambda a, b, c: _num(a, b) and a < b),
    "before": ("before(@a, @b)", lambda a, b, c: _num(a, b) and a < b),
    "lte": ("lte(@a, @b)", lambda a, b, c: _num(a, b) and a <= b),
    "equals": ("equals(@a, @b)", lambda a, b, c: a == b),
    "eqop": ("@a == @b", lambda a, b, c: a == b),
    "eqterm": ("@a == 5", lambda a, b, c: a == 5),
    "gtterm": ("gt(@a, 5)", lambda a, b, c: _num(a) and a > 5),
    "between": ("between(@a, @b, @c)", lambda a, b, c: _num(a, b, c) and (b < a < c or c < a < b)),
    "inside": ("inside(@a, @b, @c)", lambda a, b, c: _num(a, b, c) and (b < a < c or c < a < b)),
    "from_to": ("from_to(@a, @b, @c)", lambda a, b, c: _num(a, b, c) and min(b, c) <= a <= max(b, c)),
    "not-gt": ("not(gt(@a, @b))", lambda a, b, c: not (_num(a, b) and a > b)),
    "and": ("and(gt(@a, @b), gt(@b, @c))", lambda a, b, c: (_num(a, b) and a > b) and (_num(b, c) and b > c)),
    "or": ("or(gt(@a, @b), gt(@b, @c))", lambda a, b, c: (_num(a, b) and a > b) or (_num(b, c) and b > c)),
    "exists": ("exists(@a)", lambda a, b, c: a is not None),
    "empty": ("empty(@a)", lambda a, b, c: a is None),
    "var": ("@a", lambda a, b, c: a is not None),
    "not-var": ("not(@a)", lambda a, b, c: a is None),  # a bare variable is an existence test (docs/functions/not.md)
    "in": ("in(@a, @b, @c)", lambda a, b, c: a is not None and (a == b or a == c)),
    "yes": ("yes()", lambda a, b, c: True),
    "no": ("no()", lambda a, b, c: False),
    "add-eq": ("equals(add(@a, @b), @c)", lambda a, b, c: _num(a, b, c) and a + b == c),
    "subtract-eq": ("equals(subtract(@a, @b), @c)", lambda a, b, c: _num(a, b, c) and a - b == c),
    "mod-eq": ("equals(mod(@a, 3), @c)", lambda a, b, c: _num(a, c) and a % 3 == c),
    "int-eq": ("equals(int(@a), @a)", lambda a, b, c: True),
    # 'when -> do': the left side votes, the right side is only executed
    "when": ("gt(@a, @b) -> gt(@b, @c)", lambda a, b, c: _num(a, b) and a > b),
    "assign": ("@x = @a  gt(@x, @b)", lambda a, b, c: _num(a, b) and a > b),
}
# operators whose operands must all be numbers for the documented meaning to be defined
NEEDS_NUM = {"add-eq": 3, "subtract-eq": 3, "mod-eq": 1, "int-eq": 1}


def op_pre(op, a, b, c, lo, hi) -> bool:
    for x in (a, b, c):
        if x is not None and not (lo <= x <= hi):
            return False
    k = NEEDS_NUM.get(op, 0)
    if k >= 1 and a is None:
        return False
    if k >= 3 and (b is None or c is None):
        return False
    if op == "mod-eq" and c is None:
        return False
    if op in ("equals", "eqop", "in") and (a is None or b is None or (op == "in" and c is None)):
        return False  # None == None is not specified by the docs
    if op in ("gt", "above", "after", "gte", "lt", "below", "before", "lte", "not-gt") and a is None and b is None:
        return False  # docs/functions/above.md specifies None against a value, not None against None
    return True


def op_oracle(op, a, b, c) -> bool:
    return bool(OPS[op][1](a, b, c))


ENC = [
    "csvpath/csvpath.py:CsvPath._consider_line/matches",
    "csvpath/matching/matcher.py:Matcher.matches",
    "csvpath/matching/productions/expression.py:Expression.matches",
    "csvpath/matching/productions/equality.py:Equality.matches/_do_equality/_do_when/_do_assignment",
    "csvpath/matching/productions/variable.py:Variable.to_value/matches",
    "csvpath/matching/functions/function.py:Function.matches/to_value/_decide_match",
    "csvpath/matching/functions/args.py:Args.matches",
    "csvpath/matching/functions/math/above.py:AboveBelow._decide_match", "csvpath/matching/functions/math/equals.py",
    "csvpath/matching/functions/boolean/*.py (not, and, or, any/exists/empty, in, yes/no, between)",
    "csvpath/matching/functions/math/add.py, subtract.py, mod.py, intf.py",
]

_Q = ["gt", "gte", "lt", "lte", "equals", "eqop", "eqterm", "between", "from_to", "not-gt", "and", "or", "exists", "empty", "var", "not-var", "in",
      "yes", "no", "add-eq", "subtract-eq", "mod-eq", "int-eq", "when", "assign"]


@ob(
    "C01",
    "O1-operators",
    pre=["op_pre(op, a, b, c, {LO}, {HI})"],
    post="_ == op_oracle(op, a, b, c)",
    bound="one scanned line; operands are variables holding symbolic Optional[int] in LO..HI (None = unset); one obligation per "
    "operator shard (documented comparison, boolean, math functions, '==', '->', assignment); the vote of the line is compared "
    "with the documented meaning",
    outside="dates, true floats, divide/round, regex/upper/lower/metaphone; None == None; numbers outside LO..HI",
    encodes=ENC,
    findings=["C01-lt-is-lte"],
    tiers={
        "quick": {"timeout": 900, "K": {"LO": -2, "HI": 11}, "shards": product(op=_Q)},
        "thorough": {"timeout": 3000, "K": {"LO": -11, "HI": 101}, "shards": product(op=list(OPS))},
    },
)
def op_line(op: str, a: Optional[int], b: Optional[int], c: Optional[int]) -> bool:
    p, pr = fresh("$SYM[*][ %s ]" % OPS[op][0], [["h", "i"], ["x", "y"]])
    for n, v in (("a", a), ("b", b), ("c", c)):
        if v is not None:
            p.variables[n] = v
    p.track_line(["x", "y"])
    return p._consider_line(["x", "y"])


@ob(
    "C01",
    "O1-compare-wide",
    pre=["-10**6 <= a <= 10**6 and -10**6 <= b <= 10**6"],
    post="_ == op_oracle(op, a, b, None)",
    bound="gt/gte/lt/lte over symbolic ints |x| <= 10**6 (only compared numerically, never stringified)",
    encodes=ENC,
    findings=["C01-lt-is-lte"],
    tiers={"quick": {"timeout": 600, "shards": product(op=["gt", "gte", "lt", "lte"])}},
)
def cmp_wide(op: str, a: int, b: int) -> bool:
    p, pr = fresh("$SYM[*][ %s ]" % OPS[op][0], [["h", "i"], ["x", "y"]])
    p.variables["a"] = a
    p.variables["b"] = b
    p.track_line(["x", "y"])
    return p._consider_line(["x", "y"])


# ------------------------------------------------------------------ O1c numeric cells
def digits(s) -> bool:
    return len(s) >= 1 and all(ch in "0123456789" for ch in s)


CELL_OPS = {
    "above": ("above(#0, #1)", lambda x, y: x > y),
    "below": ("below(#0, #1)", lambda x, y: x < y),
    "eqop": ("#0 == #1", lambda x, y: x == y),
    "gt-term": ("gt(#0, 5)", lambda x, y: x > 5),
}


@ob(
    "C01",
    "O1-numeric-cells",
    pre=["1 <= len(s) <= {N} and 1 <= len(t) <= {N}", "digits(s) and digits(t)", "s[0] != '0' and t[0] != '0'"],
    post="_ == bool(CELL_OPS[op][1](int(s), int(t)))",
    bound="two header cells holding symbolic decimal strings of 1..N digits without leading zero; above/below/== compare them as "
    "numbers (docs/functions/above.md: number, then date, then string)",
    outside="signs, decimals, leading zeros and surrounding blanks in cells",
    encodes=ENC + ["csvpath/matching/productions/header.py:Header.to_value", "csvpath/matching/matcher.py:Matcher.get_header_value"],
    findings=["C01-cells-compared-as-text", "C01-lt-is-lte-cells"],
    tiers={"quick": {"timeout": 900, "K": {"N": 2}, "shards": product(op=list(CELL_OPS))},
           "thorough": {"timeout": 3000, "K": {"N": 3}, "shards": product(op=list(CELL_OPS))}},
)
def cell_line(op: str, s: str, t: str) -> bool:
    p, pr = fresh("$SYM[*][ %s ]" % CELL_OPS[op][0], [["h", "i"], ["1", "2"]])
    p.track_line([s, t])
    return p._consider_line([s, t])


# ------------------------------------------------------------------ O2 composition
NREC = 4
COMP = {
    "and3": ("", '$SYM[*][ gt(line_number(), @t1) @p1 gt(@t2, line_number()) ]'),
    "or3": ("~ logic-mode: OR ~ ", '$SYM[*][ gt(line_number(), @t1) @p1.asbool gt(@t2, line_number()) ]'),
    "when-assign": ("", '$SYM[*][ @x = line_number()  gt(@x, @t1) -> gt(@t2, @x)  @p1 ]'),
    "counts": ("", '$SYM[*][ gt(count_scans(), @t1) gt(@t2, count_lines()) ]'),
    # OR mode with a component that raises on line 3, whose cell is not a number (error policy: collect only): an erroring
    # component does not hold
    "or-error": ("~ logic-mode: OR ~ ", '$SYM[*][ gt(line_number(), @t1) equals(add(#0, 0), 100) ]'),
    "nocontrib-last": ("", '$SYM[*][ gt(line_number(), @t1) @p1.nocontrib == 1 -> push("s", line_number()) last.nocontrib() -> push("l", line_number()) ]'),
    # the same votes asked for through enclosing boolean functions: a component nested in not()/or()/and() is evaluated once per
    # line, whatever the number of times the enclosing function reads it (counting functions keep state)
    "nested-bool": ("", '$SYM[*][ or(gt(line_number(), @t1), no()) not(not(@p1)) and(yes(), gt(@t2, line_number())) ]'),
    "nested-counts": ("", '$SYM[*][ not(not(gt(count_scans(), @t1))) or(no(), gt(@t2, count_lines())) ]'),
    "nested-every": ("", '$SYM[*][ and(gt(line_number(), @t1), not(every.e(#0, 2))) ]'),
}


def comp_oracle(tpl, t1, t2, p1, b1, b2):
    """returned line numbers"""
    out = []
    blanks = [False, b1, b2, False]
    scans = 0
    for i in range(NREC):
        if blanks[i]:
            continue
        scans += 1
        if tpl in ("counts", "nested-counts"):
            # count_scans(): lines offered to the match part so far; count_lines(): 1-based count of data lines
            if scans > t1 and t2 > scans:
                out.append(i)
            continue
        g = i > t1
        l = i < t2
        if tpl == "or-error":
            m = g  # the second component never holds: no cell is 100, and on line 3 it raises
        elif tpl in ("and3", "nested-bool"):
            m = g and p1 and l
        elif tpl == "or3":
            m = g or p1 or l
        elif tpl == "when-assign":
            m = g and p1  # the right-hand side of '->' is executed, it does not vote
        else:
            m = g
        if m:
            out.append(i)
    return out


@ob(
    "C01",
    "O2-composition",
    pre=["{LO} <= t1 <= {HI}", "{LO} <= t2 <= {HI}"],
    post="_ == comp_oracle(tpl, t1, t2, p1, b1, b2)",
    bound="4 stub records, records 1 and 2 blank or not by symbolic flags; 2-4 match components combined under AND and OR (logic-mode comment), '->', assignment used by a later "
    "component of the same line, nocontrib, a final last() ->; thresholds t1,t2 symbolic ints LO..HI, p1 a symbolic variable "
    "presence/truth flag; returned lines, once each, in order",
    outside="more than 4 components; more than 4 records; generated ASTs of depth 3-4",
    encodes=ENC + ["csvpath/csvpath.py:CsvPath.next/collect"],
    tiers={"quick": {"timeout": 900, "K": {"LO": -1, "HI": 5}, "shards": product(tpl=list(COMP))}},
)
def comp_run(tpl: str, t1: int, t2: int, p1: bool, b1: bool, b2: bool) -> List[int]:
    comment, text = COMP[tpl]
    blanks = [False, b1, b2, False]
    cells = [str(i) for i in range(NREC)]
    if tpl == "or-error":
        cells[3] = "oops"
    p, pr = fresh(comment + text, [[] if blanks[i] else [cells[i]] for i in range(NREC)], policy=["collect"] if tpl == "or-error" else None)
    p.variables["t1"] = t1
    p.variables["t2"] = t2
    if tpl == "or3":
        p.variables["p1"] = p1
    elif p1:
        p.variables["p1"] = 1
    return [3 if l[0] == "oops" else int(l[0]) for l in p.collect()]


@ob(
    "C01",
    "O1-compare-any-int",
    pre=["-2**53 <= a <= 2**53 and -2**53 <= b <= 2**53"],
    post="_ == (a > b)",
    bound="gt over any two ints within the exactly representable float range (|x| <= 2**53)",
    encodes=ENC,
    tiers={"quick": {"timeout": 600}},
)
def cmp_any(a: int, b: int) -> bool:
    p, pr = fresh("$SYM[*][ gt(@a, @b) ]", [["h", "i"], ["x", "y"]])
    p.variables["a"] = a
    p.variables["b"] = b
    p.track_line(["x", "y"])
    return p._consider_line(["x", "y"])


@ob(
    "C01",
    "O1-float-vs-int",
    pre=["0 <= a <= 9 and 0 <= c <= 9"],
    post="_ == (a > c)",
    bound="gt(add(@a, 0), @c): the float result of a math function compared with an int variable, single-digit operands",
    encodes=ENC,
    tiers={"quick": {"timeout": 600}},
)
def float_vs_int(a: int, c: int) -> bool:
    p, pr = fresh("$SYM[*][ gt(add(@a, 0), @c) ]", [["h", "i"], ["x", "y"]])
    p.variables["a"] = a
    p.variables["c"] = c
    p.track_line(["x", "y"])
    return p._consider_line(["x", "y"])


@ob(
    "C01",
    "O1-cell-variable",
    pre=["len(s) <= {N}"],
    post="_ == True",
    bound="'@v = #0  @v': a variable assigned from a cell holding any text of <= N characters (including the empty and blank "
    "cell) and then used alone is an existence test: it holds because the variable is not None (docs/asbool.md)",
    outside="cells longer than N",
    encodes=ENC + ["csvpath/matching/productions/variable.py:Variable.matches", "csvpath/matching/productions/header.py:Header.to_value"],
    tiers={"quick": {"timeout": 600, "K": {"N": 1}}, "thorough": {"timeout": 1800, "K": {"N": 2}}},
)
def cell_variable(s: str) -> bool:
    p, pr = fresh("$SYM[*][ @v = #0  @v ]", [["h", "i"], ["1", "2"]])
    p.track_line([s, "y"])
    return p._consider_line([s, "y"])


# ------------------------------------------------------------------ O1s string functions over cells
WORDS = ["a", "ab", "abc", " ab ", "b", "Ab", "a b"]


def str_oracle(fn, i, j, n):
    s, t = WORDS[i], WORDS[j]
    if fn == "length":
        return len(s.strip())  # header values are trimmed when read
    if fn == "concat":
        return s.strip() + t.strip()
    if fn == "starts_with":
        return s.strip().startswith(t.strip())
    if fn == "substring":
        return s.strip()[0:n].strip()  # function results are trimmed when read back
    if fn == "strip":
        return s.strip()
    if fn == "upper":
        return s.strip().upper()
    if fn == "lower":
        return s.strip().lower()
    if fn in ("in-list", "in-list-spaced", "in-list-cell"):
        # docs/functions/in.md: a string term is a pipe delimited list of values; blanks around a member are not part of
        # the value (cell values themselves are trimmed when read, so a member kept with its blanks could match nothing)
        return s.strip() in (["a", "ab", "Ab"] + ([t.strip()] if fn == "in-list-cell" else []))


STRFN = {
    "length": "@r = length(#0)",
    "concat": "@r = concat(#0, #1)",
    "starts_with": "@r = starts_with(#0, #1)",
    "substring": "@r = substring(#0, @n)",
    "strip": "@r = strip(#0)",
    "upper": "@r = upper(#0)",
    "lower": "@r = lower(#0)",
    "in-list": '@r = in(#0, "a|ab|Ab")',
    "in-list-spaced": '@r = in(#0, " a | ab|Ab ")',
    "in-list-cell": '@r = in(#0, "a | ab", #1, "Ab")',
}


@ob(
    "C01",
    "O1-string-functions",
    pre=["0 <= i < 7 and 0 <= j < 7", "0 <= n <= 3"],
    post="_ == str_oracle(fn, i, j, n)",
    bound="length, concat, starts_with, substring, strip, upper, lower, in() with pipe delimited term lists (compact, with blanks around "
    "members, mixed with a cell argument) over two cells picked by symbolic indexes from 7 texts "
    "(1-3 letters, surrounding and inner blanks, mixed case) and a symbolic length 0..3; the value assigned from the function "
    "equals the Python meaning docs/functions/string_functions.md refers to",
    outside="other cell texts; empty cells (read as None)",
    encodes=ENC + ["csvpath/matching/functions/strings/*.py (length, concat, starts_with, substring, strip, upper, lower)", "csvpath/matching/functions/boolean/inf.py:In._decide_match"],
    tiers={"quick": {"timeout": 900, "shards": product(fn=list(STRFN))}},
)
def string_fn(fn: str, i: int, j: int, n: int):
    p, pr = fresh("$SYM[*][ %s ]" % STRFN[fn], [["h", "i"], ["1", "2"]])
    p.variables["n"] = n
    line = [WORDS[i], WORDS[j]]
    p.track_line(line)
    p._consider_line(line)
    return p.variables.get("r")


# ------------------------------------------------------------------ O1r row-level existence functions on ragged rows
ROWFN = {
    "all": ("all()", lambda n, e0, e1, e2: n == 2 and not e0 and not e1),
    "missing": ("missing()", lambda n, e0, e1, e2: not (n == 2 and not e0 and not e1)),
    "all-list": ("all(#a, #b)", lambda n, e0, e1, e2: n >= 2 and not e0 and not e1),
    "length-missing": ("gt(length(#b), 0)", lambda n, e0, e1, e2: n >= 2 and not e1),
    "any-headers": ("any(headers())", lambda n, e0, e1, e2: (n >= 1 and not e0) or (n >= 2 and not e1) or (n >= 3 and not e2)),
}


def row_oracle(fn, n, e0, e1, e2) -> bool:
    return bool(ROWFN[fn][1](n, e0, e1, e2))


@ob(
    "C01",
    "O1-row-functions",
    pre=["1 <= n <= 3"],
    post="_ == row_oracle(fn, n, e0, e1, e2)",
    bound="headers [a, b]; a data row of symbolic length 1..3 (shorter, equal, longer than the header row) whose cells are empty or "
    "not by symbolic flags; all(), missing(), all(#a, #b), any(headers()) against docs/functions/all.md and any.md (all(): the "
    "number of headers and row columns must be equal and every header must have a value)",
    outside="rows of more than 3 cells; cells that are blanks only",
    encodes=ENC + ["csvpath/matching/functions/boolean/all.py:All._decide_match/all_exist", "csvpath/matching/functions/boolean/any.py"],
    tiers={"quick": {"timeout": 600, "shards": product(fn=list(ROWFN))}},
)
def row_fn(fn: str, n: int, e0: bool, e1: bool, e2: bool) -> bool:
    cells = ["" if e0 else "x", "" if e1 else "y", "" if e2 else "z"]
    line = cells[:n]
    p, pr = fresh("$SYM[1*][ %s ]" % ROWFN[fn][0], [["a", "b"], ["1", "2"]])
    p.track_line(["a", "b"])
    p.track_line(line)
    return p._consider_line(line)


NUMS = ["5", "20", "90", "100", "7", "1000"]
BETW = {
    "between": ("between(#0, #1, #2)", lambda me, a, b: min(a, b) < me < max(a, b)),
    "from_to": ("from_to(#0, #1, #2)", lambda me, a, b: min(a, b) <= me <= max(a, b)),
    "between-vars": ("@lo = #1  @hi = #2  between(#0, @lo, @hi)", lambda me, a, b: min(a, b) < me < max(a, b)),
}


@ob(
    "C01",
    "O1-between-cells",
    pre=["0 <= i < 6 and 0 <= j < 6 and 0 <= k < 6"],
    post="_ == bool(BETW[fn][1](int(NUMS[i]), int(NUMS[j]), int(NUMS[k])))",
    bound="between / from_to over three numeric cells (and over variables assigned from cells) picked by symbolic indexes from "
    "6 decimal texts of 1 to 4 digits: the comparison is numeric whatever the digit counts and the order of the bounds",
    outside="other numerals; dates",
    encodes=ENC + ["csvpath/matching/functions/boolean/between.py:Between._decide_match/_try_numbers/_order/_compare"],
    tiers={"quick": {"timeout": 900, "shards": product(fn=list(BETW))}},
)
def between_cells(fn: str, i: int, j: int, k: int) -> bool:
    p, pr = fresh("$SYM[*][ %s ]" % BETW[fn][0], [["h", "i", "j"], ["1", "2", "3"]])
    line = [NUMS[i], NUMS[j], NUMS[k]]
    p.track_line(line)
    return p._consider_line(line)
