"""C20 - data and values flow between csvpaths as declared.

O1 (chain): a serial run of 3 filters, the 2nd and 3rd with source-mode: preceding (per shard:
   on a suffix of the chain); thresholds are symbolic ints (external functions): each preceding
   member must read exactly what its predecessor collected, and its manifest must name that
   data.csv as its actual input.
O2 (references): a group g is run once or twice (symbolic) with symbolic variable values; a
   second group then evaluates $g.variables.v, $g.variables.d.k and $g.headers.h3 and a third
   replays '$g.results.:last.a' as a file: values of the most recent run, the column values
   collected under the header (ragged rows skipped), exactly the member's data.csv.
"""
import csv
import io
import os
from typing import List

from crosshair.tracers import NoTracing

from vp import kit, kitpaths
from vp.ob import ob, product

kit.register("symta", "symtb", "symtc", "symv", "symw", "symt")

# the kit's 5 records (quoted delimiter, embedded newline) with a backslash inside and at the end of a cell: whatever a member
# collected must come back unchanged from its data.csv (no escape character is in play on either side)
DATA = 'h1,h2\n"a,1",b\nc,"d\ne"\nf\\x,g\nh,i\\\n'
RECORDS = [r for r in csv.reader(io.StringIO(DATA))]
ND = len(RECORDS)

CHAIN = {
    # source-mode preceding on the whole suffix / only on the last member
    "ppp": ['~id:f0~ $[*][ gt(line_number(), symta()) ]', '~id:f1 source-mode: preceding~ $[*][ gt(line_number(), symtb()) ]', '~id:f2 source-mode: preceding~ $[*][ gt(line_number(), symtc()) ]'],
    "-p": ['~id:f0~ $[*][ gt(line_number(), symta()) ]', '~id:f1~ $[*][ gt(line_number(), symtb()) ]', '~id:f2 source-mode: preceding~ $[*][ gt(line_number(), symtc()) ]'],
}


def chain_oracle(kind, ta, tb, tc):
    o0 = [r for i, r in enumerate(RECORDS) if i > ta]
    src1 = o0 if kind == "ppp" else RECORDS
    o1 = [r for i, r in enumerate(src1) if i > tb]
    o2 = [r for i, r in enumerate(o1) if i > tc]
    return o0, o1, o2


def _csv(path):
    if not os.path.exists(path):
        return []
    with open(path, newline="", encoding="utf-8") as f:
        return [r for r in csv.reader(f)]


ENC = ["csvpath/csvpaths.py:CsvPaths.collect_paths/_load_csvpath (source-mode preceding)", "csvpath/managers/results/results_manager.py:ResultsManager.get_last_named_result/get_variables/data_file_for_reference",
       "csvpath/managers/results/result.py:Result.data_file_path/actual_data_file", "csvpath/modes/source_mode.py"]


@ob(
    "C20",
    "O1-source-mode-chain",
    pre=["{LO} <= ta <= {HI} and {LO} <= tb <= {HI} and {LO} <= tc <= {HI}"],
    post="_ == ''",
    bound="chain of 3 filter csvpaths over a 5-record file (cells with a quoted delimiter, an embedded newline, backslashes), source-mode preceding on the suffix given by the shard; the three "
    "thresholds symbolic LO..HI (empty intermediate results included); each member's data.csv against a fold; a preceding member's "
    "manifest names its predecessor's data.csv",
    outside="chains of 4; symbolic cell text (solver-driven walk over the threshold box)",
    encodes=ENC,
    tiers={"quick": {"timeout": 1800, "K": {"LO": -1, "HI": 3}, "shards": product(kind=["ppp", "-p"], tb=[-1, 0])},
           "thorough": {"timeout": 6000, "K": {"LO": -1, "HI": 5}, "shards": product(kind=["ppp", "-p"], tb=[-1, 0, 1, 2])}},
)
def source_chain(kind: str, ta: int, tb: int, tc: int) -> str:
    kit.HOLD.update(symta=ta, symtb=tb, symtc=tc)
    o0, o1, o2 = chain_oracle(kind, ta, tb, tc)
    with NoTracing():
        root, cs = kitpaths.env({"g": CHAIN[kind]}, policy="raise, collect, print", data=DATA)
    problems = []
    raised = None
    try:
        cs.collect_paths(filename="data", pathsname="g")
    except Exception as e:  # a predecessor that collected nothing leaves no data.csv to read
        raised = e
    with NoTracing():
        run = os.path.join("archive/g", sorted(os.listdir("archive/g"))[0])
        want = {"f0": o0, "f1": o1, "f2": o2}
        pred = {"f1": "f0", "f2": "f1"}
        preceding = {"ppp": ("f1", "f2"), "-p": ("f2",)}[kind]
        cut = None  # the first preceding member whose predecessor collected nothing
        for m in preceding:
            if len(want[pred[m]]) == 0:
                cut = m
                break
        for m in ("f0", "f1", "f2"):
            if cut is not None and m >= cut:
                # no input exists: the member must not have produced lines (least of all from the original file)
                got = _csv(os.path.join(run, m, "data.csv"))
                if got:
                    problems.append(f"{m}: its predecessor collected nothing but it collected {got}")
                continue
            got = _csv(os.path.join(run, m, "data.csv"))
            if got != want[m]:
                problems.append(f"{m}: data.csv {got} != {want[m]}")
            if m in preceding:
                man = kitpaths.read_json(os.path.join(run, m, "manifest.json"))
                src = str(man.get("actual_data_file"))
                if not src.endswith(os.path.join(pred[m], "data.csv")):
                    problems.append(f"{m}: manifest actual_data_file is {src}")
                if man.get("source_mode_preceding") is not True:
                    problems.append(f"{m}: manifest source_mode_preceding is {man.get('source_mode_preceding')}")
        if raised is not None and cut is None:
            problems.append(f"run raised {raised!r}")
        kitpaths.cleanup(root)
    return "; ".join(problems)


# ------------------------------------------------------------------ O2 references
DATA2 = "h1,h2,h3\na,b,c\nd,e\nf\ng,h,i\n"
# the first member collects nothing; the references below are to the second member
G = ['~id:z~ $[*][ @zz = 1  no() ]', '~id:a~ $[*][ @v = symv()  @d.k = symw()  gt(line_number(), symt()) ]',
     # a member whose identity contains a period: results references name it in full
     '~id:c.v2~ $[*][ gt(line_number(), 0) ]', '~id:c~ $[*][ no() ]']
RECORDS2 = [r for r in csv.reader(io.StringIO(DATA2))]
# a group of one member: the lines its most recent run collected are all the lines the group has (down to exactly one)
G1 = ['~id:o~ $[*][ gt(line_number(), symt()) ]']
R = ['~id:r~ $[1][ @x = $g.variables.v  @y = $g.variables.d.k  @z = $g.headers.h3.a  @z1 = $g1.headers.h1 ]']
R2 = ['~id:q~ $[*][ yes() ]']


@ob(
    "C20",
    "O2-references",
    pre=["{LO} <= v1 <= {HI} and {LO} <= w1 <= {HI} and {LO} <= v2 <= {HI} and {LO} <= w2 <= {HI}"],
    post="_ == ''",
    bound="group g (4 members, one with a period in its identity; the second run's match threshold per shard, so the most recent run collects 5, 3, 2 or 1 lines; the first collects nothing, the second collects a ragged 5-record file) run once or twice (symbolic) leaving symbolic ints in a plain and "
    "a tracking-keyed variable; then a group that reads $g.variables.v, $g.variables.d.k, $g.headers.h3.a and $g1.headers.h1 (g1: one member, so the group as a whole has collected 5 down to exactly 1 line), a replay of '$g.results.:first.a', and groups run (serially and breadth-first, "
    "before and after the second run of g, on the same instance) on the file name '$g.results.:last.a': always the most recent run's data.csv",
    outside="references to groups of several members; ':first'; 3 runs",
    encodes=["csvpath/matching/productions/reference.py:Reference._variable_value/_header_value/_get_value_from_results/get_results",
             "csvpath/managers/results/results_manager.py:ResultsManager.get_variables/data_file_for_reference/_find_instance", "csvpath/util/reference_parser.py:ReferenceParser"],
    tiers={"quick": {"timeout": 1800, "K": {"LO": -1, "HI": 1}, "shards": product(twice=[False], w1=[0], w2=[1]) + product(twice=[True], w1=[0], w2=[1], v1=[0], t2=[-1, 1, 2, 3])},
           "thorough": {"timeout": 6000, "K": {"LO": -1, "HI": 2}, "shards": product(twice=[False], w1=[0, 2]) + product(twice=[True], w1=[0], w2=[1, 2], t2=[-1, 0, 1, 2, 3])}},
)
def references(twice: bool, v1: int, w1: int, v2: int, w2: int, t2: int = 1) -> str:
    import datetime
    import csvpath.csvpaths as _cps

    class _Clock:
        """every run starts in its own second (order among runs of one second is not claimed by C10)"""

        NOW = datetime.datetime(2031, 5, 6, 11, 59, 57, tzinfo=datetime.timezone.utc)

        @classmethod
        def now(cls, tz=None):
            cls.NOW = cls.NOW + datetime.timedelta(seconds=1)
            return cls.NOW

    saved = _cps.datetime
    with NoTracing():
        _cps.datetime = _Clock
        root, cs = kitpaths.env({"g": G, "g1": G1, "r": R, "r2": R2}, policy="raise, collect, print", data=DATA2)
    try:
        return _references(cs, root, twice, v1, w1, v2, w2, t2)
    finally:
        with NoTracing():
            _cps.datetime = saved


def _references(cs, root, twice, v1, w1, v2, w2, t2) -> str:
    problems = []
    kit.HOLD.update(symv=v1, symw=w1, symt=-1)
    cs.collect_paths(filename="data", pathsname="g")
    cs.collect_paths(filename="data", pathsname="g1")
    lastv, lastw, lastt = v1, w1, -1
    # replay the first run once, so that a later ':last' must be resolved afresh
    cs.collect_paths(filename="$g.results.:last.a", pathsname="r2")
    if kitpaths.result_lines(cs.results_manager.get_named_results("r2")[0]) != RECORDS2:
        problems.append("first replay of $g.results.:last.a did not give the first run's lines")
    first_lines = RECORDS2
    if twice:
        kit.HOLD.update(symv=v2, symw=w2, symt=t2)
        cs.collect_paths(filename="data", pathsname="g")
        cs.collect_paths(filename="data", pathsname="g1")
        lastv, lastw, lastt = v2, w2, t2
    try:
        cs.fast_forward_paths(filename="data", pathsname="r")
    except Exception as e:
        problems.append(f"evaluating the references raised {type(e).__name__}")
    rr = cs.results_manager.get_named_results("r")[0].csvpath.variables
    if rr.get("x") != lastv:
        problems.append(f"$g.variables.v gave {rr.get('x')}, the last run left {lastv}")
    if rr.get("y") != lastw:
        problems.append(f"$g.variables.d.k gave {rr.get('y')}, the last run left {lastw}")
    want_z = [r[2] for i, r in enumerate(RECORDS2) if i > lastt and len(r) > 2]
    if rr.get("z") != want_z:
        problems.append(f"$g.headers.h3 gave {rr.get('z')}, expected {want_z}")
    want_z1 = [r[0] for i, r in enumerate(RECORDS2) if i > lastt]
    if rr.get("z1") != want_z1:
        problems.append(f"$g1.headers.h1 gave {rr.get('z1')}, the group's only member collected {want_z1}")
    want_lines = [r for i, r in enumerate(RECORDS2) if i > lastt]
    got_serial = None
    cs.collect_paths(filename="$g.results.:first.a", pathsname="r2")
    got_first = kitpaths.result_lines(cs.results_manager.get_named_results("r2")[0])
    if got_first != first_lines:
        problems.append(f"replay of $g.results.:first.a gave {got_first}, the earliest run collected {first_lines}")
    cs.collect_paths(filename="$g.results.:last.c.v2", pathsname="r2")
    got_dotted = kitpaths.result_lines(cs.results_manager.get_named_results("r2")[0])
    if got_dotted != RECORDS2[1:]:
        problems.append(f"replay of $g.results.:last.c.v2 gave {got_dotted}, member c.v2 collected {RECORDS2[1:]}")
    got_byline = [list(x) for x in cs.collect_by_line(filename="$g.results.:last.a", pathsname="r2")]
    cs.collect_paths(filename="$g.results.:last.a", pathsname="r2")
    got_serial = kitpaths.result_lines(cs.results_manager.get_named_results("r2")[0])
    with NoTracing():
        runs = sorted(os.listdir("archive/g"))
        src = _csv(os.path.join("archive/g", runs[-1], "a", "data.csv"))
        if src != want_lines:
            problems.append(f"the most recent run of g archived {src}, expected {want_lines}")
        if got_serial != want_lines:
            problems.append(f"serial replay of $g.results.:last.a gave {got_serial}, the most recent run collected {want_lines}")
        if got_byline != want_lines:
            problems.append(f"breadth-first replay of $g.results.:last.a gave {got_byline}, the most recent run collected {want_lines}")
        kitpaths.cleanup(root)
    return "; ".join(problems)
