"""C13 - stop, skip, advance and last control the run as documented.

Run level: a real CsvPath.next() over 7 stub records (record 0 header, records 1..6 blank
or not by symbolic flags).  The control function fires on the line whose number equals the
symbolic variable @k; side-effecting components (push) sit before and after it.  Observed:
returned lines, the pushes of every component, scan/match counters (CsvPath.stopped is
not compared: the scanner itself sets it on the last scanned line).
Oracle: a line-by-line fold written from docs/functions/stop.md, advance.md, last.md.
"""
from typing import List, Tuple

from vp.kit import fresh
from vp.ob import ob, product
from harness.c02_scan import load_scanner

NREC = 7

TPL = {
    # control in the middle of three components
    "stop-mid": '$SYM[*][ push("a", line_number()) stop(@k == line_number()) push("b", line_number()) ]',
    # control as the final component
    "stop-last": '$SYM[*][ push("a", line_number()) push("b", line_number()) stop(@k == line_number()) ]',
    # control first
    "stop-first": '$SYM[*][ stop(@k == line_number()) push("a", line_number()) push("b", line_number()) ]',
    "stop-when": '$SYM[*][ push("a", line_number()) @k == line_number() -> stop() push("b", line_number()) ]',
    "skip-mid": '$SYM[*][ push("a", line_number()) skip(@k == line_number()) push("b", line_number()) ]',
    "skip-last": '$SYM[*][ push("a", line_number()) push("b", line_number()) skip(@k == line_number()) ]',
    "skip-first": '$SYM[*][ skip(@k == line_number()) push("a", line_number()) push("b", line_number()) ]',
    # an earlier component of the firing line votes no (lines <= @n do not match)
    "skip-lastfailing": '$SYM[*][ push("a", line_number()) gt(line_number(), @n) push("b", line_number()) skip(@k == line_number()) ]',
    "stop-lastfailing": '$SYM[*][ push("a", line_number()) gt(line_number(), @n) push("b", line_number()) stop(@k == line_number()) ]',
    "adv-mid": '$SYM[*][ push("a", line_number()) @k == line_number() -> advance(@n) push("b", line_number()) ]',
    "adv-last": '$SYM[*][ push("a", line_number()) push("b", line_number()) @k == line_number() -> advance(@n) ]',
}


def ctl_oracle(tpl, k, n, b1, b2, b3, b4, b5, b6):
    blanks = [False, b1, b2, b3, b4, b5, b6]
    kind, pos = tpl.split("-")
    ret, a, b = [], [], []
    scan = match = 0
    stopped = False
    adv = 0
    for i in range(NREC):
        if blanks[i]:
            continue
        scan += 1
        if adv > 0:
            adv -= 1
            continue
        fire = i == k
        if pos == "lastfailing":
            a.append(i)
            b.append(i)
            if kind == "skip" and fire:
                continue
            if i > n:
                ret.append(i)
                match += 1
            if kind == "stop" and fire:
                break
            continue
        if kind == "stop":
            if pos == "first":
                if fire:
                    stopped = True
                    break  # nothing later on this line, line not returned
                a.append(i)
                b.append(i)
                ret.append(i)
                match += 1
            elif pos == "mid":
                a.append(i)
                if fire:
                    stopped = True
                    break
                b.append(i)
                ret.append(i)
                match += 1
            elif pos == "last":
                a.append(i)
                b.append(i)
                ret.append(i)  # stop is final and the line matched: returned
                match += 1
                if fire:
                    stopped = True
                    break
            else:  # when: '@k == line_number() -> stop()' votes false unless it fires
                a.append(i)
                if fire:
                    stopped = True
                    break
                b.append(i)
        elif kind == "skip":
            if pos == "first":
                if fire:
                    continue
                a.append(i)
                b.append(i)
            elif pos == "mid":
                a.append(i)
                if fire:
                    continue
                b.append(i)
            else:
                a.append(i)
                b.append(i)
                if fire:
                    continue
            ret.append(i)
            match += 1
        else:  # advance through a when/do: the line matches only where it fires
            a.append(i)
            b.append(i)
            if fire:
                adv = n
                ret.append(i)
                match += 1
    return (ret, a, b, scan, match)


ENC = [
    "csvpath/csvpath.py:CsvPath.next/_consider_line/matches/raise_match_count_if",
    "csvpath/matching/matcher.py:Matcher.matches/reset",
    "csvpath/matching/functions/lines/stop.py:Stop/Skip",
    "csvpath/matching/functions/lines/advance.py:Advance._decide_match",
    "csvpath/matching/productions/equality.py:Equality.matches/_do_when",
    "csvpath/matching/functions/variables/pushpop.py:Push",
]


@ob(
    "C13",
    "O1-stop-skip-advance",
    pre=["{KLO} <= k <= {KHI}", "0 <= n <= {NHI}"],
    post="_ == ctl_oracle(tpl, k, n, b1, b2, b3, b4, b5, b6)",
    bound="7 stub records, blank flags for records 1..6 symbolic (quick: b2,b4,b5 fixed False); firing line k symbolic "
    "KLO..KHI (includes never-firing and blank lines); advance count n symbolic 0..NHI; control first/middle/last of 3 "
    "components (templates TPL)",
    outside="more than 7 records; more than 3 components; advance during an advance",
    encodes=ENC,
    tiers={
        "quick": {"timeout": 900, "K": {"KLO": -1, "KHI": 7, "NHI": 7},
                  "shards": product(tpl=[t for t in TPL if not t.startswith("adv") and not t.endswith("failing")], n=[0], b2=[False], b4=[False], b5=[False])
                  + product(tpl=["adv-mid", "adv-last"], b2=[False], b4=[False], b5=[False], b6=[False])
                  + product(tpl=["skip-lastfailing", "stop-lastfailing"], b1=[False], b2=[False], b4=[False], b5=[False], b6=[False])},
        "thorough": {"timeout": 3000, "K": {"KLO": -2, "KHI": 8, "NHI": 8},
                     "shards": product(tpl=[t for t in TPL if not t.startswith("adv") and not t.endswith("failing")], n=[0], b1=[False, True])
                     + product(tpl=["adv-mid", "adv-last"], b1=[False, True], b2=[False, True])
                     + product(tpl=["skip-lastfailing", "stop-lastfailing"], b2=[False, True], b4=[False], b5=[False])},
    },
)
def ctl_run(tpl: str, k: int, n: int, b1: bool, b2: bool, b3: bool, b4: bool, b5: bool, b6: bool) -> Tuple[List[int], List[int], List[int], int, int]:
    blanks = [False, b1, b2, b3, b4, b5, b6]
    recs = [[] if blanks[i] else [str(i)] for i in range(NREC)]
    p, pr = fresh(TPL[tpl], recs)
    p.variables["k"] = k
    p.variables["n"] = n
    got = [int(l[0]) for l in p.next()]
    return (got, list(p.variables.get("a", [])), list(p.variables.get("b", [])), p.scan_count, p.match_count)


# ------------------------------------------------------------------ last()
LAST_TPL = '$SYM[*][ push("a", line_number()) last.nocontrib() -> push("l", line_number()) ]'


def last_oracle(to, b1, b2, b3, b4, b5, b6, got) -> bool:
    """got = (returned, a, l).  to = scan end (0-to) or -1 for '*'."""
    blanks = [False, b1, b2, b3, b4, b5, b6]
    ret, a, l = got
    end = NREC - 1 if (to < 0 or to >= NREC - 1) else to
    want = [i for i in range(end + 1) if not blanks[i]]
    if ret != want or a != want:
        return False
    if len(l) > 1:
        return False  # at most once per run
    if not blanks[end]:
        return l == [end]  # the file's / the scan's final line
    if end == NREC - 1:
        return len(l) == 1  # file ends in a blank line: last() still fires, no line returned
    return True  # scan window ends on a blank interior line: not specified beyond 'at most once'


@ob(
    "C13",
    "O2-last",
    pre=["-1 <= to <= {THI}"],
    post="last_oracle(to, b1, b2, b3, b4, b5, b6, _)",
    bound="7 stub records, all 6 blank flags symbolic (interior and trailing blanks), scan '*' (to=-1) or '0-to' with "
    "to symbolic through the real scanner productions",
    outside="a last() with a child; more than 7 records",
    encodes=ENC + ["csvpath/matching/functions/lines/last.py:Last._decide_match", "csvpath/matching/matcher.py:Matcher._do_lasts",
                   "csvpath/util/line_monitor.py:LineMonitor.is_last_line/is_last_line_and_blank", "csvpath/scanning/scanner.py:Scanner.is_last"],
    tiers={
        "quick": {"timeout": 900, "K": {"THI": 8}, "shards": product(b2=[False], b4=[False, True])},
        "thorough": {"timeout": 3000, "K": {"THI": 9}, "shards": product(b2=[False, True], b4=[False, True])},
    },
)
def last_run(to: int, b1: bool, b2: bool, b3: bool, b4: bool, b5: bool, b6: bool) -> Tuple[List[int], List[int], List[int]]:
    blanks = [False, b1, b2, b3, b4, b5, b6]
    recs = [[] if blanks[i] else [str(i)] for i in range(NREC)]
    p, pr = fresh(LAST_TPL, recs)
    if to >= 0:
        p.scanner = load_scanner(p, "R", [0, to, 0, 0, 0, 0])
    got = [int(l[0]) for l in p.next()]
    return (got, list(p.variables.get("a", [])), list(p.variables.get("l", [])))


# ------------------------------------------------------------------ O3 advance() inside a bounded scan window, with last()
ADVWIN_TPL = '$SYM[*][ push("a", line_number()) @k.nocontrib == line_number() -> advance(@n) last.nocontrib() -> push("l", line_number()) ]'


def advwin_oracle(to, k, n, b6):
    a, l = [], []
    adv = 0
    scans = 0
    for i in range(to + 1):
        scans += 1
        if adv > 0:
            adv -= 1
            continue
        a.append(i)
        if i == k:
            adv = n
        if i == to:
            l.append(i)
    return (a, l, scans)


@ob(
    "C13",
    "O3-advance-in-window",
    pre=["1 <= to <= 5", "-1 <= k <= 6", "0 <= n <= 6"],
    post="_ == advwin_oracle(to, k, n, b6)",
    bound="7 stub records (no interior blanks, trailing record blank or not by a symbolic flag), scan '0-to' with symbolic end "
    "before the end of the file, advance(@n) firing on symbolic line k with symbolic n (it may reach or pass the window's end), a "
    "last() component: lines evaluated, last() firings (only on the window's final line, and only if it is evaluated), scan count; "
    "nothing after the window is evaluated",
    outside="interior blank records; windows reaching the end of the file (O2-last)",
    encodes=ENC + ["csvpath/matching/functions/lines/last.py:Last._decide_match", "csvpath/scanning/scanner.py:Scanner.is_last/includes"],
    tiers={"quick": {"timeout": 900, "shards": product(b6=[False, True])}},
)
def advwin_run(to: int, k: int, n: int, b6: bool) -> Tuple[List[int], List[int], int]:
    recs = [[str(i)] for i in range(NREC - 1)] + [[] if b6 else [str(NREC - 1)]]
    p, pr = fresh(ADVWIN_TPL, recs)
    p.scanner = load_scanner(p, "R", [0, to, 0, 0, 0, 0])
    p.variables["k"] = k
    p.variables["n"] = n
    p.fast_forward()
    return (list(p.variables.get("a", [])), list(p.variables.get("l", [])), p.scan_count)
