"""C12 - named-paths groups round-trip and select by identity.

O1 (E2, cvc5 word-equation query generated from the source): the join template of
   PathsManager._str_from_list (the f-string, from the AST) and the split marker
   PathsManager.MARKER give the text of a stored group file for two members a, b.  Query: can the
   marker occur in that text anywhere but at the two join positions, when neither member contains
   it (|a|,|b| <= 20)?  unsat = the split returns exactly the two members.  (z3 answers unknown on
   this query; cvc5 --strings-exp --strings-fmf decides it.)
O2 (E1): selection by identity: get_named_paths('g#id'), '$g.csvpaths.id', ':from', ':to' on
   groups of 3 members whose identities are chosen symbolically (may coincide) and whose metadata
   key is chosen symbolically among id/Id/ID/name/Name/NAME (two keys per member, so the documented
   precedence decides).
O3 (E1): manifest step: add, then re-add the same or different content on the same or a new
   instance (symbolic): +0 / +1 manifest entries, the newest fingerprinting the stored file.
"""
import ast
import hashlib
import inspect
import json
import os
import subprocess
import tempfile
import time
from typing import List, Tuple

from crosshair.tracers import NoTracing

from vp import kit, kitpaths
from vp.ob import ob, product


def join_parts():
    """(prefix-before-member literal, MARKER) from the source"""
    import csvpath.managers.paths.paths_manager as pm

    src = inspect.getsource(pm.PathsManager._str_from_list)
    tree = ast.parse("class X:\n" + src if src.startswith("    ") else src)
    lits = []
    for n in ast.walk(tree):
        if isinstance(n, ast.JoinedStr):
            for v in n.values:
                if isinstance(v, ast.Constant) and isinstance(v.value, str) and v.value:
                    lits.append(v.value)
    if len(lits) != 1:
        raise ValueError(f"expected one literal in the join f-string, found {lits}")
    return lits[0], pm.PathsManager.MARKER


def smt_str(s):
    return '"' + "".join(c if 32 <= ord(c) < 127 and c != '"' else "\\u{%x}" % ord(c) for c in s) + '"'


@ob(
    "C12",
    "O1-group-file-roundtrip",
    kind="query",
    bound="two members a, b of at most 20 characters each (any characters), neither containing the marker; the join template "
    "and the marker are read from the source; one cvc5 query (QF_SLIA, --strings-exp --strings-fmf)",
    outside="members longer than 20 characters; groups of more than 2 (the same two-member argument applies pairwise); members "
    "that themselves contain the marker text (they cannot round-trip by construction of the format)",
    encodes=["csvpath/managers/paths/paths_manager.py:PathsManager._str_from_list (join template, from the AST) / MARKER / _get_csvpaths_from_file (split on MARKER)"],
    tiers={"quick": {"timeout": 300}},
)
def group_file_roundtrip(tier, cfg, shard, carve):
    try:
        lit, marker = join_parts()
    except Exception as e:
        return {"verdict": "CANNOT_CONFIRM", "message": "unmodelled: " + repr(e), "cex": None, "z3_queries": 0, "z3_s": 0, "paths": 0}
    if marker not in lit:
        return {"verdict": "SAT", "message": "the join template does not contain the split marker", "cex": {"a": "$a[*][yes()]", "b": "$b[*][no()]"},
                "z3_queries": 0, "z3_s": 0, "paths": 0}
    pre, post = lit.split(marker, 1)
    off1 = len(pre)
    smt = f"""(set-logic QF_SLIA)
(declare-const a String)
(declare-const b String)
(define-fun M () String {smt_str(marker)})
(define-fun s () String (str.++ {smt_str(lit)} a {smt_str(lit)} b))
(define-fun legit2 () Int (+ {len(lit) + off1} (str.len a)))
(assert (not (str.contains a M)))
(assert (not (str.contains b M)))
(assert (<= (str.len a) 20))
(assert (<= (str.len b) 20))
(assert (or (not (= (str.indexof s M 0) {off1})) (not (= (str.indexof s M {off1 + 1}) legit2)) (not (= (str.indexof s M (+ legit2 1)) (- 1)))))
(check-sat)
"""
    d = tempfile.mkdtemp(prefix="q", dir=kit.workdir())
    path = os.path.join(d, "q.smt2")
    with open(path, "w") as f:
        f.write(smt)
    t = time.time()
    try:
        p = subprocess.run(["cvc5", "--strings-exp", "--strings-fmf", "--produce-models", "--tlimit=240000", path], capture_output=True, text=True, timeout=280)
        out = p.stdout.strip()
    except Exception as e:
        return {"verdict": "CANNOT_CONFIRM", "message": "cvc5 did not finish: " + repr(e), "cex": None, "z3_queries": 1, "z3_s": round(time.time() - t, 2), "paths": 0}
    dt = round(time.time() - t, 2)
    first = out.splitlines()[0] if out else ""
    if "(error" in out or first not in ("sat", "unsat"):
        return {"verdict": "CANNOT_CONFIRM", "message": "cvc5 answered: " + out[:300] + p.stderr[:300], "cex": None, "z3_queries": 1, "z3_s": dt, "paths": 0}
    # vacuity: without the negated property the constraints are satisfiable
    smt0 = smt.split("(assert (or")[0] + "(check-sat)\n"
    with open(path, "w") as f:
        f.write(smt0)
    p0 = subprocess.run(["cvc5", "--strings-exp", "--strings-fmf", path], capture_output=True, text=True, timeout=120)
    if p0.stdout.strip().splitlines()[:1] != ["sat"]:
        return {"verdict": "VACUOUS", "message": "assumptions unsatisfiable: " + p0.stdout[:200], "cex": None, "z3_queries": 2, "z3_s": dt, "paths": 0}
    if first == "sat":
        import re

        with open(path, "w") as f:
            f.write(smt + "(get-value (a b))\n")
        out = subprocess.run(["cvc5", "--strings-exp", "--strings-fmf", "--produce-models", path], capture_output=True, text=True, timeout=280).stdout
        vals = re.findall(r'\((a|b) "((?:[^"]|"")*)"\)', out)
        cex = {k: v for k, v in vals}
        return {"verdict": "SAT", "message": "marker can occur elsewhere", "cex": cex, "z3_queries": 2, "z3_s": dt, "paths": 1}
    return {"verdict": "UNSAT", "message": "", "cex": None, "z3_queries": 2, "z3_s": dt, "paths": 1, "engine": "cvc5 1.0.3 QF_SLIA",
            "witness": {"join_template": lit, "marker": marker}, "extra": {"smt2": smt}}


def replay_group_file_roundtrip(args):
    """through the real add_named_paths / get_named_paths in a scratch directory"""
    def dec(s):
        import re

        return re.sub(r"\\u\{([0-9a-fA-F]+)\}", lambda m: chr(int(m.group(1), 16)), s)

    a, b = dec(args.get("a", "")), dec(args.get("b", ""))
    root, cs = kitpaths.env({})
    try:
        cs.paths_manager.add_named_paths(name="g", paths=[a, b])
        got = cs.paths_manager.get_named_paths("g")
    finally:
        kitpaths.cleanup(root)
    want = [x.strip() for x in (a, b) if x.strip() != ""]
    return ([g.strip() for g in got] != want, f"stored {[a, b]!r}, read back {got!r}")


# ------------------------------------------------------------------ O2 selection by identity
IDS = ["x", "y", "Zz"]
KEYS = ["id", "Id", "ID", "name", "Name", "NAME"]


def member_text(i, k1, i1, k2, i2):
    """member i with two metadata fields: KEYS[k1]: IDS[i1] and KEYS[k2]: IDS[i2]"""
    return "~ %s: %s %s: %s ~ $[*][ @m = %d ]" % (KEYS[k1], IDS[i1], KEYS[k2], IDS[i2], i)


def identity_of(k1, i1, k2, i2):
    """documented precedence id > Id > ID > name > Name > NAME"""
    md = {KEYS[k1]: IDS[i1]}
    md[KEYS[k2]] = IDS[i2]
    for k in KEYS:
        if k in md:
            return md[k]
    return None


def select_oracle(ids, want):
    """(one, from, to) over the member indexes, by the first member whose identity equals want"""
    hit = [j for j, x in enumerate(ids) if x == want]
    if not hit:
        return (None, [], list(range(len(ids))))
    h = hit[0]
    return (h, list(range(h, len(ids))), list(range(h + 1)))


@ob(
    "C12",
    "O2-select-by-identity",
    pre=["0 <= k0 < 6 and 0 <= k1 < 6 and 0 <= k2 < 6", "0 <= a0 < 3 and 0 <= a1 < 3 and 0 <= a2 < 3", "0 <= w < 3", "kk != k0"],
    post="_ == ''",
    bound="group of 3 members; each member's identity value (of 3) and the metadata key carrying it (of id/Id/ID/name/Name/NAME) "
    "chosen by symbolic indexes, member 0 additionally carries a second key kk with another value (precedence); the wanted "
    "identity chosen symbolically; 'g#id', '$g.csvpaths.id', 'g#id:from', 'g#id:to' against list slicing at the first member "
    "with that identity",
    outside="groups of more than 3; identities beyond the 3 sample values (solver-driven walk over the index box)",
    encodes=["csvpath/managers/paths/paths_manager.py:PathsManager.get_named_paths/_find_one/_get_to/_get_from/get_identified_paths_in/_paths_name_path",
             "csvpath/csvpath.py:CsvPath.identity", "csvpath/util/metadata_parser.py:MetadataParser.extract_metadata", "csvpath/util/reference_parser.py:ReferenceParser"],
    tiers={"quick": {"timeout": 1800, "shards": product(kk=[0, 2, 3, 5], w=[0, 1, 2], k1=[0], k2=[4])},
           "thorough": {"timeout": 6000, "shards": product(kk=[0, 1, 2, 3, 4, 5], w=[0, 1, 2], k1=[0, 3], a2=[1, 2])}},
)
def select_by_identity(k0: int, a0: int, kk: int, k1: int, a1: int, k2: int, a2: int, w: int) -> str:
    other = (a0 + 1) % 3
    texts = [member_text(0, k0, a0, kk, other), "~ checked at 10 : 30 %s: %s ~ $[*][ @m = 1 ]" % (KEYS[k1], IDS[a1]), "~ %s: %s ~ $[*][ @m = 2 ]" % (KEYS[k2], IDS[a2])]
    ids = [identity_of(k0, a0, kk, other), IDS[a1], IDS[a2]]
    want = IDS[w]
    one, frm, to = select_oracle(ids, want)
    with NoTracing():
        root, cs = kitpaths.env({"g": texts}, with_file=False)
    problems = ""
    pm = cs.paths_manager
    try:
        def idx(paths):
            return [texts.index(p.strip()) for p in paths]

        for form in ("g#" + want, "$g.csvpaths." + want):
            try:
                got = idx(pm.get_named_paths(form))
            except Exception as e:
                got = None
            if got != ([one] if one is not None else None):
                problems += f"{form} -> {got}, expected {[one] if one is not None else 'an error'}; "
        got = idx(pm.get_named_paths("g#" + want + ":from"))
        if got != frm:
            problems += f":from -> {got}, expected {frm}; "
        got = idx(pm.get_named_paths("g#" + want + ":to"))
        if got != to:
            problems += f":to -> {got}, expected {to}; "
    finally:
        with NoTracing():
            kitpaths.cleanup(root)
    return problems


# ------------------------------------------------------------------ O3 manifest step
V = {"A": ['~id:a~ $[*][yes()]', '~id:b~ $[*][no()]'], "B": ['~id:a~ $[*][yes()]', '~id:c~ $[2*][no()]'], "C": ['$[*][ #0 ]'],
     "D": ['~id:a~ $[*][yes()]', '~id:d~ $[*][no()]']}  # D differs from A in one character only (same length)


def _manifest(cs, name):
    p = os.path.join(cs.config.inputs_csvpaths_path, name, "manifest.json")
    if not os.path.exists(p):
        return []
    with open(p) as f:
        return json.load(f)


@ob(
    "C12",
    "O3-manifest-steps",
    pre=["0 <= c1 < 4 and 0 <= c2 < 4"],
    post="_ == ''",
    bound="group g gets content A, then content c1, then c2 (each one of 4 contents, one of them of the same length as A; symbolic; equal = identical re-add), each "
    "step on the same or a new CsvPaths instance (symbolic); in the rm shard the group is removed before the second add: after every step get_named_paths returns the new members in order, the "
    "manifest grew by one entry iff the content changed, and its last entry fingerprints the stored group file",
    outside="remove operations; more than 3 contents; 2 group names",
    encodes=["csvpath/managers/paths/paths_manager.py:PathsManager.add_named_paths/_copy_in/get_named_paths", "csvpath/managers/paths/paths_registrar.py:PathsRegistrar.register_complete/metadata_update"],
    tiers={"quick": {"timeout": 1800, "shards": product(rm=[False, True])}},
)
def manifest_steps(c1: int, n1: bool, c2: int, n2: bool, rm: bool = False) -> str:
    names = ["A", "B", "C", "D"]
    with NoTracing():
        root, cs = kitpaths.env({"g": V["A"]}, with_file=False)
    problems = ""
    try:
        cur = "A"
        count = len(_manifest(cs, "g"))
        if count != 1:
            problems += f"first add made {count} manifest entries; "
        for step, (c, fresh_inst) in enumerate(((c1, n1), (c2, n2))):
            content = names[c]
            with NoTracing():
                inst = kitpaths.new_instance() if fresh_inst else cs
            if rm and step == 0:
                # the group is removed first: the next add starts a new manifest with one entry
                inst.paths_manager.remove_named_paths("g")
                count = 0
                cur = None
            inst.paths_manager.add_named_paths(name="g", paths=V[content])
            with NoTracing():
                got = [p.strip() for p in inst.paths_manager.get_named_paths("g")]
                if got != V[content]:
                    problems += f"step {step + 1}: read back {got}; "
                man = _manifest(inst, "g")
                want = count + (0 if content == cur else 1)
                if len(man) != want:
                    problems += f"step {step + 1}: manifest has {len(man)} entries, expected {want}; "
                gf = os.path.join(inst.config.inputs_csvpaths_path, "g", "group.csvpaths")
                with open(gf, "rb") as f:
                    h = hashlib.sha256(f.read()).hexdigest()
                if man and man[-1].get("fingerprint") != h:
                    problems += f"step {step + 1}: last manifest entry does not fingerprint the stored file; "
                count = len(man)
                cur = content
    finally:
        with NoTracing():
            kitpaths.cleanup(root)
    return problems
