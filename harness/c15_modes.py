"""C15 - comment mode settings take effect; matched and unmatched partition the file.

O1 (metadata kernel): the real MetadataParser on '~ <free> <key>: <value> ~ $SYM[*][yes()]' with
   symbolic free text, key and value: the csvpath text is unchanged and metadata[key] == value.
O2 (modes in runs): 6 stub records with symbolic blank flags and a symbolic match threshold:
   return-mode matches/no-matches partition the scanned lines; unmatched-mode keep: collected and
   unmatched lines together are the records read, once each, in order; run-mode no-run reads
   nothing and returns nothing; print-mode no-default removes only the standard-out printer;
   other metadata fields and free comment text never change scan or match.
"""
from typing import Dict, List, Optional, Tuple

from crosshair.tracers import NoTracing

from vp.kit import fresh, StubReader, CapPrinter
from vp.ob import ob, product
from csvpath import CsvPath
from csvpath.util.metadata_parser import MetadataParser

PATH = "$SYM[*][yes()]"
KEYCH = "abcdefghijklmnopqrstuvwxyz0123456789-_"
BAD = "~[]$"


class _Holder:
    def __init__(self):
        self.metadata = {}


def key_ok(k) -> bool:
    return 1 <= len(k) and all(ch in KEYCH for ch in k)


def text_ok(t) -> bool:
    return all(ch not in BAD for ch in t)


# one or two representatives of every character class collect_metadata distinguishes:
# alphanumeric, '-', '_', blank, newline, other punctuation
ALPH = "a-_ \n!"


def in_alph(t) -> bool:
    return all(ch in ALPH for ch in t)


def meta_oracle(value):
    v = value.strip()
    return (PATH, v if len(v) > 0 else None)


KEYS = ["k", "a-b"]


FREE = ALPH + ":"  # free comment text may also hold a colon that does not follow a key word


def pick(i):
    return "" if i < 0 else ALPH[i]


def pickf(i):
    return "" if i < 0 else FREE[i]


def idx_ok(f0, f1, ki, v0, v1, v2, v3, nv) -> bool:
    n = len(ALPH)
    if not (0 <= ki < len(KEYS)):
        return False
    for x in (v0, v1, v2, v3):
        if not (-1 <= x < n):
            return False
    for x in (f0, f1):
        if not (-1 <= x < len(FREE)):
            return False
    if f0 < 0 and f1 >= 0:
        return False
    vs = [v0, v1, v2, v3]
    for j in range(3):
        if vs[j] < 0 and vs[j + 1] >= 0:
            return False
    for j in range(nv, 4):
        if vs[j] >= 0:
            return False
    return True


def meta_oracle_idx(v0, v1, v2, v3):
    return meta_oracle(pick(v0) + pick(v1) + pick(v2) + pick(v3))


@ob(
    "C15",
    "O1-metadata",
    pre=["idx_ok(f0, f1, ki, v0, v1, v2, v3, {NV})"],
    post="_ == meta_oracle_idx(v0, v1, v2, v3)",
    bound="outer comment '~ <free> <key>: <value> ~' before a concrete csvpath; free text (0-2 chars, over ALPH plus a free-standing ':') and value (0-NV chars) are "
    "chosen character by character by symbolic indexes into ALPH (representatives of every character class the parser "
    "distinguishes: alphanumeric, - _, blank, newline, punctuation), key by a symbolic index into KEYS; the "
    "scan/match text must come back unchanged and metadata[key] must be the trimmed value (None when blank). The solver "
    "drives the walk over this finite box (symbolic strings made each path cost >1 s of string-theory solving: measured, abandoned)",
    outside="characters outside ALPH; several symbolic fields in one comment; ':' inside values; longer texts",
    encodes=["csvpath/util/metadata_parser.py:MetadataParser.extract_csvpath_and_comment/collect_metadata"],
    tiers={"quick": {"timeout": 900, "K": {"NV": 3}, "shards": product(f0=[-1, 0, 1, 2, 3, 4, 5, 6], f1=[-1]) + product(f0=[6], f1=[6, 0])}, "thorough": {"timeout": 6000, "K": {"NV": 3}, "shards": product(f0=[-1], f1=[-1]) + product(f0=[0, 1, 2, 3, 4, 5, 6], f1=[-1, 0, 3, 5, 6])}},
)
def metadata(f0: int, f1: int, ki: int, v0: int, v1: int, v2: int, v3: int) -> Tuple[str, Optional[str]]:
    with NoTracing():
        cp = CsvPath(print_default=False)
        mp = MetadataParser(cp)
    key = KEYS[ki]
    text = "~ " + pickf(f0) + pickf(f1) + " " + key + ": " + pick(v0) + pick(v1) + pick(v2) + pick(v3) + " ~ " + PATH
    path2, comment = mp.extract_csvpath_and_comment(text)
    inst = _Holder()
    mp.collect_metadata(inst, comment.strip())
    return (path2.strip(), inst.metadata.get(key))


# ------------------------------------------------------------------ O2 modes in runs
NREC = 6
MATCH = '$SYM[*][ push("s", line_number()) gt(line_number(), @k) ]'


def recs_of(b1, b3, b5):
    blanks = [False, b1, False, b3, False, b5]
    return [[] if blanks[i] else [str(i)] for i in range(NREC)]


def modes_oracle(mode, k, b1, b3, b5):
    blanks = [False, b1, False, b3, False, b5]
    lines = [i for i in range(NREC) if not blanks[i]]
    m = [i for i in lines if i > k]
    nm = [i for i in lines if not i > k]
    if mode == "default" or mode == "free-text":
        return (m, lines, None)
    if mode == "no-matches":
        return (nm, lines, None)
    if mode == "keep":
        return (m, lines, nm)
    if mode == "keep-no-matches":
        return (nm, lines, m)
    if mode == "no-run":
        return ([], [], None)


COMMENT = {
    "default": "",
    "free-text": "~ checks: sizes, and more; owner: pat (ops) return-modes: n/a version: 1.0 ~ ",
    "no-matches": "~ return-mode: no-matches ~ ",
    "keep": "~ unmatched-mode: keep ~ ",
    "keep-no-matches": "~ unmatched-mode: keep return-mode: no-matches ~ ",
    "no-run": "~ run-mode: no-run ~ ",
}


@ob(
    "C15",
    "O2-modes",
    pre=["{KLO} <= k <= {KHI}"],
    post="_ == modes_oracle(mode, k, b1, b3, b5)",
    bound="6 stub records, 3 symbolic blank flags, symbolic match threshold k; modes per shard (default, extra metadata and free "
    "text, return-mode no-matches, unmatched-mode keep, both, run-mode no-run); observed: returned lines, lines evaluated "
    "(pushes), the unmatched lines (blank records dropped)",
    outside="explain/files/source modes; more than 6 records",
    encodes=["csvpath/csvpath.py:CsvPath.parse/next/collect/_consider_line (collect_when_not_matched, unmatched)", "csvpath/modes/mode_controller.py:ModeController.update",
             "csvpath/modes/return_mode.py", "csvpath/modes/unmatched_mode.py", "csvpath/modes/run_mode.py", "csvpath/util/metadata_parser.py:MetadataParser.extract_metadata"],
    tiers={"quick": {"timeout": 900, "K": {"KLO": -1, "KHI": 6}, "shards": product(mode=list(COMMENT))}},
)
def modes_run(mode: str, k: int, b1: bool, b3: bool, b5: bool) -> Tuple[List[int], List[int], Optional[List[int]]]:
    if mode == "keep" and b5:
        # the caller looks at the setting before parsing: the comment must still take effect afterwards
        StubReader.RECORDS = recs_of(b1, b3, b5)
        with NoTracing():
            p = CsvPath(print_default=False)
            pr = CapPrinter()
            p.add_printer(pr)
            _seen_before = p.unmatched_available
            p.parse(COMMENT[mode] + MATCH)
    else:
        p, pr = fresh(COMMENT[mode] + MATCH, recs_of(b1, b3, b5))
    p.variables["k"] = k
    reads0 = StubReader.READS
    got = [int(l[0]) for l in p.collect()]
    if mode == "no-run" and StubReader.READS != reads0:
        got = got + [-1]  # the run read the file
    um = [] if p.unmatched_available else None  # nothing unmatched: the list may never have been created
    if p.unmatched is not None:
        um = [int(l[0]) for l in p.unmatched if len(l) > 0]
    return (got, list(p.variables.get("s", [])), um)


@ob(
    "C15",
    "O3-print-mode",
    post="_ == ((0 if nodefault else 1), 1, 6, (1 if std else 0))",
    bound="print-mode no-default vs default (symbolic): the standard-out printer is removed; a user-added printer and a LogPrinter "
    "(a subclass of the standard-out printer) stay and receive every print, whether or not a standard-out printer was there to remove (symbolic)",
    encodes=["csvpath/modes/print_mode.py:PrintMode.update_printers", "csvpath/csvpath.py:CsvPath.print"],
    tiers={"quick": {"timeout": 300}},
)
def print_mode(nodefault: bool, std: bool) -> Tuple[int, int, int, int]:
    import logging
    from csvpath.util.printer import StdOutPrinter, LogPrinter

    StubReader.RECORDS = recs_of(False, False, False)
    with NoTracing():
        p = CsvPath(print_default=std)  # std False: the caller's printers only, no standard-out printer to remove
        for pr_ in p.printers:
            if isinstance(pr_, StdOutPrinter):
                pr_.print = lambda s: None  # keep the harness output quiet
        if std:
            lg = logging.getLogger("verif-null")
            lg.disabled = True
            p.add_printer(LogPrinter(lg))
        cap = CapPrinter()
        p.add_printer(cap)
        comment = "~ print-mode: no-default ~ " if nodefault else "~ print-mode: default ~ "
        p.parse(comment + '$SYM[*][ print("x") ]')
    p.fast_forward()
    std = len([x for x in p.printers if type(x) is StdOutPrinter])
    logs = len([x for x in p.printers if isinstance(x, LogPrinter)])
    caps = len([x for x in p.printers if isinstance(x, CapPrinter)])
    return (std, caps, len(cap.lines), logs)


# ------------------------------------------------------------------ O4 return-mode no-matches is the complement, also over advanced-over lines
ADV = '$SYM[*][ @a.nocontrib == line_number() -> advance(@n)  gt(line_number(), @k) ]'


@ob(
    "C15",
    "O4-no-matches-complement",
    pre=["{KLO} <= k <= {KHI} and {KLO} <= a <= {KHI}"],
    post="sorted(_[0] + _[1]) == [0, 1, 2, 3, 4, 5]",
    bound="6 stub records (no blanks); a csvpath that advances n lines (1..3, per shard) from a symbolic line a and matches lines above a "
    "symbolic threshold k, run once in the default return mode and once with return-mode: no-matches: every scanned line is returned "
    "by exactly one of the two runs (lines advanced over are not matches)",
    outside="skip(); blank records (O2)",
    encodes=["csvpath/csvpath.py:CsvPath._consider_line (advance branch, collect_when_not_matched)", "csvpath/matching/functions/lines/advance.py", "csvpath/modes/return_mode.py"],
    tiers={"quick": {"timeout": 900, "K": {"KLO": -1, "KHI": 6}, "shards": product(n=[1, 2, 3])}},
)
def no_matches_complement(k: int, a: int, n: int) -> Tuple[List[int], List[int]]:
    out = []
    for comment in ("", COMMENT["no-matches"]):
        p, pr = fresh(comment + ADV, recs_of(False, False, False))
        p.variables["k"] = k
        p.variables["a"] = a
        p.variables["n"] = n
        out.append([int(l[0]) for l in p.collect()])
    return (out[0], out[1])
