r"""C17 - what runs is what was written: parsing is unambiguous and layout-insensitive.

O1 (E2, z3 regular-language queries generated from the live Lark object):
  the 17 terminals and the BNF rules are read from LarkParser().parser on every run; terminal
  regexes are translated to z3 regular expressions (vp/regex2z3.py).  S_n = every grammatical
  match part of at most n tokens, as a tuple of match components (each a tuple of terminal names),
  generated from the rules.  L(T) = '[' WS* c1 WS+ c2 ... WS* ']' with WS* between the tokens of
  one component and WS+ between components (layouts: any amount of white space / newlines, at
  least one between components).
  (a) one reading per text: for every T in S_n,  L(T) /\ U_{T' != T} L(T') = {} .
  A model is a concrete csvpath text with two readings; it is replayed through the real
  LarkParser (Earley, ambiguity=explicit): '_ambig' in the tree = violation.
O2 (E1): ExpressionUtility.get_name_and_qualifiers, the LarkTransformer token callbacks and
  MetadataParser.extract_csvpath_and_comment (outer comment never changes the csvpath) with
  symbolic text.
"""
import time
from functools import lru_cache
from typing import List, Optional, Tuple

import z3
from crosshair.tracers import NoTracing

from vp.ob import ob, product
from vp import regex2z3
from csvpath.matching.lark_parser import LarkParser

_G = None


def grammar():
    global _G
    if _G is None:
        L = LarkParser().parser
        rules = {}
        for r in L.rules:
            rules.setdefault(r.origin.name, []).append(tuple(s.name for s in r.expansion))
        terms = {t.name: t.pattern.to_regexp() for t in L.terminals}
        _G = (rules, terms)
    return _G


def component_seqs(n):
    """all terminal tuples of length <= n derivable from 'expression'"""
    rules, terms = grammar()

    @lru_cache(None)
    def gen(sym, k):
        if sym in terms:
            return frozenset([(sym,)]) if k == 1 else frozenset()
        out = set()
        for exp in rules[sym]:
            out |= seqs(exp, k)
        return frozenset(out)

    @lru_cache(None)
    def seqs(exp, k):
        if not exp:
            return frozenset([()]) if k == 0 else frozenset()
        if len(exp) == 1:
            return gen(exp[0], k)
        out = set()
        for j in range(1, k - len(exp) + 2):
            a = gen(exp[0], j)
            if not a:
                continue
            b = seqs(exp[1:], k - j)
            for x in a:
                for y in b:
                    out.add(x + y)
        return frozenset(out)

    return {k: sorted(gen("expression", k)) for k in range(1, n + 1)}


def matches_upto(n):
    """every match part (tuple of components) whose token count incl. '[' ']' is <= n"""
    comp = component_seqs(n - 2)
    out = [()]

    def rec(prefix, left):
        for k, cs in comp.items():
            if k <= left:
                for c in cs:
                    m = prefix + (c,)
                    out.append(m)
                    rec(m, left - k)

    rec((), n - 2)
    return out


class Lang:
    def __init__(self):
        rules, terms = grammar()
        self.T = {name: regex2z3.rx(p) for name, p in terms.items()}
        self.WS0 = z3.Star(self.T["WS"])
        self.WS1 = self.T["WS"]  # the WS terminal is already one-or-more

    def flat(self, m, when_sep="0"):
        """[(terminal, separator-before)] for a match: '0' = WS*, '1' = WS+, 'n' = nothing"""
        out = [("_LB", None)]
        for ci, c in enumerate(m):
            for ti, t in enumerate(c):
                if ti > 0:
                    out.append((t, when_sep if t == "WHEN" else "0"))
                else:
                    out.append((t, "0" if ci == 0 else "1"))
        out.append(("_RB", "0"))
        return tuple(out)

    def lang(self, flat):
        r = None
        for t, sep in flat:
            part = self.T[t]
            if sep == "0":
                part = z3.Concat(self.WS0, part)
            elif sep == "1":
                part = z3.Concat(self.WS1, part)
            r = part if r is None else z3.Concat(r, part)
        return r

    def trie(self, flats):
        from collections import defaultdict

        def build(group, depth):
            ends = [s for s in group if len(s) == depth]
            by = defaultdict(list)
            for s in group:
                if len(s) > depth:
                    by[s[depth]].append(s)
            alts = []
            for (t, sep), sub in by.items():
                part = self.T[t]
                if sep == "0":
                    part = z3.Concat(self.WS0, part)
                elif sep == "1":
                    part = z3.Concat(self.WS1, part)
                rest = build(sub, depth + 1)
                alts.append(part if rest is None else z3.Concat(part, rest))
            if ends and alts:
                alts.append(z3.Re(""))
            if not alts:
                return None
            return alts[0] if len(alts) == 1 else z3.Union(*alts)

        return build(list(flats), 0)


def real_parse(text):
    """-> (is_ambiguous, error or None) from the real parser"""
    try:
        tree = LarkParser().parse(text)
    except Exception as e:
        return (False, repr(e)[:200])
    amb = any(getattr(t, "data", None) == "_ambig" for t in tree.iter_subtrees())
    return (amb, None)


@ob(
    "C17",
    "O1a-one-reading",
    kind="query",
    bound="every grammatical match part of <= N tokens (N counts '[' and ']'); all token texts (the terminals' full regular "
    "languages); white space: any amount, at least one between match components; one z3 query per match part: its language "
    "against the union of all the others",
    outside="match parts of more than N tokens; the arity/type tables of functions (checked after parsing)",
    encodes=["csvpath/matching/lark_parser.py:LarkParser.GRAMMAR (terminals and rules read from the live Lark object)"],
    tiers={"quick": {"timeout": 900, "K": {"N": 7}, "shards": product(part=list(range(16)), of=[16])},
           "thorough": {"timeout": 6000, "K": {"N": 8}, "shards": product(part=list(range(16)), of=[16])}},
)
def one_reading(tier, cfg, shard, carve):
    n = cfg["K"]["N"]
    ms = matches_upto(n)
    lg = Lang()
    flats = [lg.flat(m) for m in ms]
    mine = flats[shard["part"]::shard["of"]]
    q = 0
    zs = 0.0
    t0 = time.time()
    x = z3.String("x")
    witness = None
    for f in mine:
        if time.time() - t0 > cfg["timeout"]:
            return {"verdict": "CANNOT_CONFIRM", "message": "time-out", "z3_queries": q, "z3_s": round(zs, 2), "paths": 0, "cex": None}
        others = [g for g in flats if g != f]
        s = z3.Solver()
        s.set("timeout", 60000)
        s.add(z3.InRe(x, lg.lang(f)))
        if witness is None:
            # reachability: the language of this match part is not empty
            t = time.time()
            r0 = s.check()
            zs += time.time() - t
            q += 1
            if str(r0) != "sat":
                return {"verdict": "VACUOUS", "message": f"language of {f} is empty or unknown: {r0}", "z3_queries": q, "z3_s": round(zs, 2), "paths": 0, "cex": None}
            witness = {"match": [t_ for t_, _ in f], "text": s.model()[x].as_string()}
        s.add(z3.InRe(x, lg.trie(others)))
        t = time.time()
        r = s.check()
        zs += time.time() - t
        q += 1
        if str(r) == "sat":
            text = s.model()[x].as_string()
            return {"verdict": "SAT", "message": f"two readings: {[t_ for t_, _ in f]}", "cex": {"text": text, "reading": [t_ for t_, _ in f]},
                    "z3_queries": q, "z3_s": round(zs, 2), "paths": len(mine), "witness": witness}
        if str(r) != "unsat":
            return {"verdict": "CANNOT_CONFIRM", "message": f"solver answered {r} for {f}", "z3_queries": q, "z3_s": round(zs, 2), "paths": 0, "cex": None}
    return {"verdict": "UNSAT", "message": "", "cex": None, "z3_queries": q, "z3_s": round(zs, 2), "paths": len(mine), "witness": witness,
            "engine": "z3 regular-language queries", "extra": {"match_parts_total": len(flats), "match_parts_this_shard": len(mine), "N": n}}


def replay_one_reading(args):
    amb, err = real_parse(args["text"])
    if err:
        return (False, f"real parser rejects {args['text']!r}: {err}")
    return (amb, f"real parse of {args['text']!r}: ambiguous={amb}")


@ob(
    "C17",
    "O1b-one-split",
    kind="query",
    bound="for every grammatical match part T of <= N tokens and every token position i: no text of L(T) can be cut into the "
    "same token types in two ways that first differ at token i (a1 and a1.y both in terminal i, y non-empty, and both remainders "
    "in the regular language of the rest of T); exact for regular suffix languages",
    outside="match parts of more than N tokens",
    encodes=["csvpath/matching/lark_parser.py:LarkParser.GRAMMAR (terminals and rules read from the live Lark object)"],
    tiers={"quick": {"timeout": 900, "K": {"N": 7}, "shards": product(part=list(range(16)), of=[16])},
           "thorough": {"timeout": 6000, "K": {"N": 8}, "shards": product(part=list(range(16)), of=[16])}},
)
def one_split(tier, cfg, shard, carve):
    n = cfg["K"]["N"]
    ms = matches_upto(n)
    lg = Lang()
    flats = [lg.flat(m) for m in ms]
    mine = flats[shard["part"]::shard["of"]]
    q = 0
    zs = 0.0
    t0 = time.time()
    a1, y, rest = z3.Strings("a1 y rest")
    done = 0
    seen = set()
    for f in mine:
        for i in range(len(f) - 1):
            if time.time() - t0 > cfg["timeout"]:
                return {"verdict": "CANNOT_CONFIRM", "message": "time-out", "z3_queries": q, "z3_s": round(zs, 2), "paths": done, "cex": None}
            key = (f[i][0], f[i + 1:])
            if key in seen:
                continue  # the query depends only on terminal i and the suffix
            seen.add(key)
            A = lg.T[f[i][0]]
            suffix = lg.lang(f[i + 1:])
            s = z3.Solver()
            s.set("timeout", 60000)
            s.add(z3.Length(y) > 0)
            s.add(z3.InRe(a1, A), z3.InRe(z3.Concat(a1, y), A))
            s.add(z3.InRe(z3.Concat(y, rest), suffix), z3.InRe(rest, suffix))
            t = time.time()
            r = s.check()
            zs += time.time() - t
            q += 1
            if str(r) == "sat":
                m = s.model()
                # a full text: any prefix for the tokens before i
                pre = z3.String("pre")
                s2 = z3.Solver()
                s2.add(z3.InRe(pre, lg.lang(f[:i]) if i > 0 else z3.Re("")))
                s2.check()
                lead = s2.model()[pre].as_string() if i > 0 else ""
                sep = "" if f[i][1] in (None,) else " "
                text = lead + sep + m.eval(a1).as_string() + m.eval(y).as_string() + m.eval(rest).as_string()
                return {"verdict": "SAT", "message": f"two splits at token {i} of {[t_ for t_, _ in f]}", "cex": {"text": text, "reading": [t_ for t_, _ in f]},
                        "z3_queries": q, "z3_s": round(zs, 2), "paths": done}
            if str(r) != "unsat":
                return {"verdict": "CANNOT_CONFIRM", "message": f"solver answered {r} for token {i} of {f}", "z3_queries": q, "z3_s": round(zs, 2), "paths": done, "cex": None}
        done += 1
    return {"verdict": "UNSAT", "message": "", "cex": None, "z3_queries": q, "z3_s": round(zs, 2), "paths": done,
            "witness": {"match": [t_ for t_, _ in mine[0]]} if mine else None,
            "engine": "z3 regular-language + string queries", "extra": {"match_parts_this_shard": len(mine), "distinct_(terminal,suffix)_queries": q, "N": n}}


def replay_one_split(args):
    return replay_one_reading(args)


# ------------------------------------------------------------------ O2 (E1)
from vp.kit import fresh  # noqa: E402
from csvpath import CsvPath  # noqa: E402
from csvpath.matching.util.expression_utility import ExpressionUtility  # noqa: E402
from csvpath.util.metadata_parser import MetadataParser  # noqa: E402

NAMECH = "aZ9_-"


def name_ok(t, n) -> bool:
    return 1 <= len(t) <= n and all(c in NAMECH for c in t)


@ob(
    "C17",
    "O2-name-and-qualifiers",
    pre=["name_ok(n, {N}) and name_ok(q1, {N}) and name_ok(q2, {N})", "0 <= k <= 2"],
    post="_ == (n, [q1, q2][:k])",
    bound="a name and k (0..2, symbolic) dot-separated qualifiers, each 1..N characters over letters, digit, '_' and '-': "
    "get_name_and_qualifiers returns exactly the name and the qualifiers in source order",
    outside="quoted names; more than 2 qualifiers; longer words",
    encodes=["csvpath/matching/util/expression_utility.py:ExpressionUtility.get_name_and_qualifiers/_next_qual"],
    tiers={"quick": {"timeout": 900, "K": {"N": 2}}, "thorough": {"timeout": 3000, "K": {"N": 3}}},
)
def name_quals(n: str, q1: str, q2: str, k: int) -> Tuple[str, List[str]]:
    text = n
    if k >= 1:
        text = text + "." + q1
    if k >= 2:
        text = text + "." + q2
    a, qs = ExpressionUtility.get_name_and_qualifiers(text)
    return (a, list(qs))


_MATCHER = None


def _transformer():
    global _MATCHER
    from csvpath.matching.lark_transformer import LarkTransformer
    from csvpath.matching.matcher import Matcher

    with NoTracing():
        if _MATCHER is None:
            p, pr = fresh("$SYM[*][yes()]", [["h"], ["a"]])
            _MATCHER = Matcher(csvpath=p, data=p.match, line=["h"], headers=p.headers, myid="verif")
        return LarkTransformer(_MATCHER)


NUMBASE = {"small": -50, "2^53": 2**53 - 50, "-2^53": -(2**53) - 50, "10^18": 10**18 - 50}
NUMTEXT = {k: [str(b + i) for i in range(100)] for k, b in NUMBASE.items()}


@ob(
    "C17",
    "O2-number-literal",
    pre=["0 <= d < 100"],
    post="_ == NUMBASE[base] + d",
    bound="the SIGNED_NUMBER token callback on the decimal text of the ints base+d, d symbolic 0..99, for bases around 0, "
    "+-2**53 and 10**18 (the text is picked by the symbolic index, so the solver walks these 400 literals): the Term carries exactly "
    "that value. (A fully symbolic int(str(v)) needed >700 s of z3 str.to_int solving: measured, abandoned.)",
    outside="other integer literals; decimal fractions and exponents (floats)",
    encodes=["csvpath/matching/lark_transformer.py:LarkTransformer.SIGNED_NUMBER", "csvpath/matching/productions/term.py:Term"],
    tiers={"quick": {"timeout": 600, "shards": product(base=list(NUMBASE))}},
)
def number_literal(base: str, d: int) -> int:
    from lark.lexer import Token

    tr = _transformer()
    tok = Token("SIGNED_NUMBER", "0")
    tok.value = NUMTEXT[base][d]
    term = tr.SIGNED_NUMBER(tok)
    return term.value


@ob(
    "C17",
    "O2-name-tokens",
    pre=["name_ok(n, {N}) and name_ok(q, {N})"],
    post="_ == (n, [q], n, [q])",
    bound="HEADER and VARIABLE token callbacks on '#n.q' and '@n.q' with symbolic words: the component carries the source's name "
    "and qualifier",
    outside="quoted header names; STRING literals (CrossHair's model of str.lstrip(chars) on symbolic text gave a spurious, non-replaying "
    "counterexample: dropped)",
    encodes=["csvpath/matching/lark_transformer.py:LarkTransformer.HEADER/VARIABLE/STRING", "csvpath/matching/productions/qualified.py:Qualified.__init__"],
    tiers={"quick": {"timeout": 900, "K": {"N": 2}}},
)
def name_tokens(n: str, q: str) -> Tuple[str, List[str], str, List[str]]:
    from lark.lexer import Token

    tr = _transformer()
    th = Token("HEADER", "#x.y")
    th.value = "#" + n + "." + q
    tv = Token("VARIABLE", "@x.y")
    tv.value = "@" + n + "." + q
    h = tr.HEADER(th)
    v = tr.VARIABLE(tv)
    return (h.name, list(h.qualifiers), v.name, list(v.qualifiers))


CMT = "a $:."
PATHTXT = "$SYM[1*][ #0 == \"$a\" ]"


def cpick(i):
    return "" if i < 0 else CMT[i]


@ob(
    "C17",
    "O2-outer-comment",
    pre=["-1 <= c0 < 5 and -1 <= c1 < 5 and -1 <= c2 < 5"],
    post="_ == (PATHTXT, (cpick(c0) + cpick(c1) + cpick(c2)).strip())",
    bound="an outer comment of 0-3 characters chosen by symbolic indexes over {letter, blank, '$', ':', '.'} (no mode "
    "settings) before a concrete csvpath that itself contains '$' and a quoted '$': the csvpath text comes back unchanged and the "
    "comment text complete",
    outside="'~', '[' and ']' inside outer comments; longer comments",
    encodes=["csvpath/util/metadata_parser.py:MetadataParser.extract_csvpath_and_comment"],
    tiers={"quick": {"timeout": 600}},
)
def outer_comment(c0: int, c1: int, c2: int) -> Tuple[str, str]:
    with NoTracing():
        cp = CsvPath(print_default=False)
        mp = MetadataParser(cp)
    text = "~" + cpick(c0) + cpick(c1) + cpick(c2) + "~ " + PATHTXT
    path2, comment = mp.extract_csvpath_and_comment(text)
    return (path2.strip(), comment.strip())


RUNRECS = [["0"], ["1"], ["2"], ["3"]]


def _run_with_modes(prefix, orflag, unm, k, j):
    from vp.kit import StubReader, CsvPath as _CsvPath

    StubReader.RECORDS = RUNRECS
    with NoTracing():
        p = _CsvPath(print_default=False)
    # modes chosen through the public API before parse()
    p.OR = orflag
    p.collect_when_not_matched = unm
    with NoTracing():
        p.parse(prefix + "$SYM[*][ @k == line_number()  @j == line_number() ]")
    p.variables["k"] = k
    p.variables["j"] = j
    return [int(l[0]) for l in p.collect()]


@ob(
    "C17",
    "O2-comment-keeps-api-modes",
    pre=["{LO} <= k <= {HI} and {LO} <= j <= {HI}"],
    post="_[0] == _[1] and _[0] == modes_oracle(orflag, unm, k, j)",
    bound="a run of '[ @k == line_number()  @j == line_number() ]' over 4 records with the logic mode (AND/OR) and the return mode chosen "
    "through the public API before parse() (symbolic bools), k and j symbolic LO..HI: the returned lines are the same with and without an "
    "outer comment of 1-2 characters over {letter, blank, '$', ':', '.'} (no mode settings; one comment per shard), and equal the fold",
    outside="comments with mode settings (C15); longer comments",
    encodes=["csvpath/util/metadata_parser.py:MetadataParser.extract_metadata/collect_metadata", "csvpath/csvpath.py:CsvPath.parse/update_settings_from_metadata/OR/collect_when_not_matched",
             "csvpath/modes/mode_controller.py"],
    tiers={"quick": {"timeout": 900, "K": {"LO": -1, "HI": 3}, "shards": product(c0=[0, 1, 2, 3, 4], c1=[-1, 3])}},
)
def comment_keeps_api_modes(c0: int, c1: int, orflag: bool, unm: bool, k: int, j: int) -> Tuple[List[int], List[int]]:
    plain = _run_with_modes("", orflag, unm, k, j)
    commented = _run_with_modes("~" + cpick(c0) + cpick(c1) + "~ ", orflag, unm, k, j)
    return (plain, commented)


def modes_oracle(orflag, unm, k, j):
    out = []
    for i in range(len(RUNRECS)):
        m = (i == k or i == j) if orflag else (i == k and i == j)
        if m != unm:
            out.append(i)
    return out


# ------------------------------------------------------------------ O1c: the tree built by the transformer equals the source
FUNCS = ["yes", "not", "concat.onmatch", "any"]


def _flatten(node):
    """the component tree built by LarkTransformer, written back as (token kind, value) pairs in source order"""
    from csvpath.matching.productions import Equality, Variable, Term, Expression, Header, Reference
    from csvpath.matching.functions.function import Function

    def qn(n):
        return n.name + "".join("." + q for q in (n.qualifiers or []))

    if isinstance(node, Expression):
        return _flatten(node.children[0])
    if isinstance(node, Equality):
        if node.op == ",":
            out = []
            for i, c in enumerate(node.children):
                if i:
                    out.append(("COMMA", ","))
                out += _flatten(c)
            return out
        tok = {"->": ("WHEN", "->"), "==": ("EQUALS", "=="), "=": ("ASSIGN", "=")}[node.op]
        return _flatten(node.left) + [tok] + _flatten(node.right)
    if isinstance(node, Function):
        inner = []
        if node.children:
            inner = _flatten(node.children[0])
        return [("__ANON_0", qn(node)), ("LP", "(")] + inner + [("RP", ")")]
    if isinstance(node, Header):
        return [("HEADER", "#" + qn(node))]
    if isinstance(node, Variable):
        return [("VARIABLE", "@" + qn(node))]
    if isinstance(node, Reference):
        return [("REFERENCE", "$" + qn(node))]
    if isinstance(node, Term):
        v = node.value
        if isinstance(v, bool) or v is None:
            return [("TERM?", repr(v))]
        if isinstance(v, (int, float)):
            return [("SIGNED_NUMBER", v)]
        if len(v) >= 2 and v[0] == "/" and v[-1] == "/":
            return [("REGEX", v)]
        return [("STRING", v)]
    return [("?", repr(node))]


def _source_leaves(tree):
    out = []
    for t in tree.scan_values(lambda v: True):
        if t.type == "COMMENT":
            continue
        if t.type == "STRING":
            out.append(("STRING", t.value[1:-1]))
        elif t.type == "HEADER" and t.value.startswith('#"'):
            out.append(("HEADER", "#" + t.value[2:-1]))  # a quoted header name is the text between the quotes
        elif t.type == "SIGNED_NUMBER":
            out.append(("SIGNED_NUMBER", float(t.value) if ("." in t.value or "e" in t.value.lower()) else int(t.value)))
        else:
            out.append((t.type, t.value))
    return out


def tree_vs_source(text):
    """-> '' if the component tree says what the text says, else what differs"""
    from csvpath.matching.lark_transformer import LarkTransformer

    tree = LarkParser().parse(text)
    if any(getattr(t, "data", None) == "_ambig" for t in tree.iter_subtrees()):
        return "ambiguous"
    for t in tree.scan_values(lambda v: True):
        if t.value not in text:
            return f"the parse tree carries the token {t.value!r} which does not occur in the text"
    src = _source_leaves(tree)
    tr = _transformer()
    es = tr.transform(tree)
    got = []
    for e in es:
        got += _flatten(e)
    if got != src:
        return f"source says {src} but the component tree says {got}"
    return ""


@ob(
    "C17",
    "O1c-tree-equals-source",
    kind="query",
    bound="for every grammatical match part T of <= N tokens z3 produces a text of L(T) (function names restricted to real "
    "functions, variable/header/reference names to the documented word forms, strings, regexes, numbers and comments free); the text is parsed by the real parser and transformed by the real LarkTransformer; the "
    "component tree written back in source order must equal the token sequence of the text: kinds, names, qualifiers, operators, "
    "argument order, literal values. One solver-made program per match part (translation validation of the transformer on "
    "solver-generated programs; the solver step is the generation, the comparison is concrete). White space: at least one before "
    "'->' in the main shards; the shard when_sep='n' generates the texts with NO white space before '->' (listed known finding: they do not parse)",
    outside="more than one text per match part; exponent notation in numbers; arity checks",
    encodes=["csvpath/matching/lark_transformer.py:LarkTransformer (all rule and token callbacks)", "csvpath/matching/functions/function_factory.py:FunctionFactory.get_function",
             "csvpath/matching/productions/*.py constructors", "csvpath/matching/lark_parser.py:LarkParser.GRAMMAR"],
    tiers={"quick": {"timeout": 900, "K": {"N": 7}, "shards": product(part=list(range(16)), of=[16], when_sep=["1"]) + product(part=[0], of=[1], when_sep=["n"])},
           "thorough": {"timeout": 3000, "K": {"N": 8}, "shards": product(part=list(range(16)), of=[16], when_sep=["1"]) + product(part=[0], of=[1], when_sep=["n"])}},
)
def tree_equals_source(tier, cfg, shard, carve):
    n = cfg["K"]["N"]
    ms = matches_upto(n)
    lg = Lang()
    # function names must exist for the transformer: restrict the NAME terminal to a few real functions (with a qualifier)
    lg.T["__ANON_0"] = z3.Union(*[z3.Re(f) for f in FUNCS])
    # names as the docs allow them (a name does not start with a period; qualifiers are dot-separated words)
    word = r"[a-zA-Z][a-zA-Z0-9_]*"
    lg.T["VARIABLE"] = regex2z3.rx(r"@" + word + r"(\." + word + r")?")
    lg.T["HEADER"] = regex2z3.rx(r"#(" + word + r"(\." + word + r")?|[0-9]+|\"[a-zA-Z][a-zA-Z0-9 _]*\")")
    lg.T["REFERENCE"] = regex2z3.rx(r"\$" + word + r"\.(variables|headers)\." + word)
    # string literals carry a double blank (white space inside a literal is data)
    lg.T["STRING"] = regex2z3.rx(r"\"[a-z]*  [a-z]*\"")
    lg.T["SIGNED_NUMBER"] = regex2z3.rx(r"(\+|\-)?([0-9]+\.[0-9]*|\.[0-9]+|[0-9]+)")  # no exponent notation (stated as outside)
    x = z3.String("x")
    when_sep = shard.get("when_sep", "1")
    flats = [lg.flat(m, when_sep=when_sep) for m in ms]
    if when_sep == "n":
        flats = [f for f in flats if any(t == "WHEN" for t, _ in f)]
    mine = flats[shard["part"]::shard["of"]]
    q = 0
    zs = 0.0
    t0 = time.time()
    witness = None
    checked = 0
    for f in mine:
        if time.time() - t0 > cfg["timeout"]:
            return {"verdict": "CANNOT_CONFIRM", "message": "time-out", "z3_queries": q, "z3_s": round(zs, 2), "paths": checked, "cex": None}
        s = z3.Solver()
        s.set("timeout", 60000)
        s.add(z3.InRe(x, lg.lang(f)))
        t = time.time()
        r = s.check()
        zs += time.time() - t
        q += 1
        if str(r) != "sat":
            return {"verdict": "CANNOT_CONFIRM", "message": f"no text for {f}: {r}", "z3_queries": q, "z3_s": round(zs, 2), "paths": checked, "cex": None}
        text = s.model()[x].as_string()
        after = None
        if witness is None:
            witness = {"match": [t_ for t_, _ in f], "text": text}
        try:
            diff = tree_vs_source(text)
            if not diff and "  " in text:
                # the same program with the double blank inside the literal made single: parsed in the same process,
                # it must carry its own literal (white space inside strings, regexes and quoted names is data, not layout)
                text2 = text.replace("  ", " ")
                d2 = tree_vs_source(text2)
                if d2:
                    diff = "after parsing %r, the text %r: %s" % (text, text2, d2)
                    after, text = text, text2
        except Exception as e:
            diff = "raised " + repr(e)[:300]
        checked += 1
        if diff:
            cex = {"text": text}
            if after is not None:
                cex["after"] = after  # a two-step history: this text was parsed first in the same process
            return {"verdict": "SAT", "message": diff[:500], "cex": cex, "z3_queries": q, "z3_s": round(zs, 2), "paths": checked, "witness": witness}
    return {"verdict": "UNSAT", "message": "", "cex": None, "z3_queries": q, "z3_s": round(zs, 2), "paths": checked, "witness": witness,
            "engine": "z3 regular-language models + real parser/transformer", "extra": {"programs": checked, "N": n}}


def replay_tree_equals_source(args):
    try:
        if args.get("after"):
            tree_vs_source(args["after"])
        d = tree_vs_source(args["text"])
    except Exception as e:
        d = "raised " + repr(e)[:300]
    return (bool(d), f"{args['text']!r}: {d or 'tree equals source'}")


QCH = "a. Z"


def qpick(i):
    return "" if i < 0 else QCH[i]


@ob(
    "C17",
    "O2-quoted-name",
    pre=["0 <= c0 < 4 and -1 <= c1 < 4 and -1 <= c2 < 4", "not (c1 < 0 and c2 >= 0)", "name_ok(q, 1)",
         "(qpick(c0) + qpick(c1) + qpick(c2)).strip() != ''"],
    post="_ == (qpick(c0) + qpick(c1) + qpick(c2), [q])",
    bound="a quoted header name of 1-3 characters chosen by symbolic indexes over {letter, period, blank, capital} (a leading "
    "period or blank included; not blanks only) followed by one qualifier: get_name_and_qualifiers returns the text between the quotes and the qualifier",
    outside="longer quoted names",
    encodes=["csvpath/matching/util/expression_utility.py:ExpressionUtility.get_name_and_qualifiers/_parse_quoted"],
    tiers={"quick": {"timeout": 600}},
)
def quoted_name(c0: int, c1: int, c2: int, q: str) -> Tuple[str, List[str]]:
    inner = qpick(c0) + qpick(c1) + qpick(c2)
    a, qs = ExpressionUtility.get_name_and_qualifiers('"' + inner + '".' + q)
    return (a, list(qs))


# ------------------------------------------------------------------ O1e every function name of the factory, with a qualifier
def factory_names():
    """function names FunctionFactory.get_function knows, read from its source (string literals compared with `name`)"""
    import ast
    import inspect
    from csvpath.matching.functions.function_factory import FunctionFactory

    src = inspect.getsource(FunctionFactory.get_function)
    tree = ast.parse("class X:\n" + src)
    names = []
    for n in ast.walk(tree):
        if isinstance(n, ast.Compare) and isinstance(n.left, ast.Name) and n.left.id in ("name", "qname"):
            for c in n.comparators:
                if isinstance(c, ast.Constant) and isinstance(c.value, str) and c.value:
                    names.append(c.value)
                elif isinstance(c, (ast.List, ast.Tuple)):
                    names += [e.value for e in c.elts if isinstance(e, ast.Constant) and isinstance(e.value, str)]
    return sorted(set(names))


@ob(
    "C17",
    "O1e-function-names",
    kind="query",
    bound="every function name the factory knows (read from the source of FunctionFactory.get_function), written plain, with one "
    "qualifier and with two qualifiers: the text parses and the component tree carries exactly that name and those qualifiers. "
    "(An enumeration of the names found in the source, not a solver query; kept with the grammar obligations it completes.)",
    outside="arity and argument types (checked after parsing)",
    encodes=["csvpath/matching/functions/function_factory.py:FunctionFactory.get_function", "csvpath/matching/lark_transformer.py:LarkTransformer.function"],
    tiers={"quick": {"timeout": 600}},
)
def function_names(tier, cfg, shard, carve):
    names = factory_names()
    if len(names) < 50:
        return {"verdict": "CANNOT_CONFIRM", "message": f"only {len(names)} function names found in the factory source", "cex": None, "z3_queries": 0, "z3_s": 0, "paths": 0}
    checked = 0
    for n in names:
        for q in ("", ".onmatch", ".myname.notnone"):
            text = "[ %s%s() ]" % (n, q)
            try:
                d = tree_vs_source(text)
            except Exception as e:
                d = "raised " + repr(e)[:200]
            checked += 1
            if d:
                return {"verdict": "SAT", "message": d[:400], "cex": {"text": text}, "z3_queries": 0, "z3_s": 0, "paths": checked}
    return {"verdict": "UNSAT", "message": "", "cex": None, "z3_queries": 0, "z3_s": 0, "paths": checked, "witness": {"names": len(names), "sample": names[:8]},
            "engine": "enumeration of names read from the source + real parser/transformer", "extra": {"names": len(names), "programs": checked}}


def replay_function_names(args):
    return replay_tree_equals_source(args)


# ------------------------------------------------------------------ O1f the documented variable-name language is accepted
def documented_variable_regex():
    import re

    with open("/repo/docs/variables.md") as f:
        text = f.read()
    m = re.search(r"/(@\[[^\n]*?\]\+)/", text)
    return m.group(1) if m else None


@ob(
    "C17",
    "O1f-documented-names-accepted",
    kind="query",
    bound="the regular expression docs/variables.md gives for variable names against the live VARIABLE terminal of the grammar: one z3 "
    "query, no text of the documented language is outside the terminal's language",
    outside="header and reference names (the docs give no pattern for them)",
    encodes=["csvpath/matching/lark_parser.py:LarkParser.GRAMMAR (VARIABLE terminal)", "docs/variables.md (documented pattern)"],
    tiers={"quick": {"timeout": 300}},
)
def documented_names(tier, cfg, shard, carve):
    rules, terms = grammar()
    doc = documented_variable_regex()
    if not doc:
        return {"verdict": "CANNOT_CONFIRM", "message": "no variable-name pattern found in docs/variables.md", "cex": None, "z3_queries": 0, "z3_s": 0, "paths": 0}
    try:
        ldoc = regex2z3.rx(doc)
        lterm = regex2z3.rx(terms["VARIABLE"])
    except regex2z3.Unmodelled as e:
        return {"verdict": "CANNOT_CONFIRM", "message": "unmodelled regex: " + str(e), "cex": None, "z3_queries": 0, "z3_s": 0, "paths": 0}
    x = z3.String("x")
    s0 = z3.Solver()
    s0.add(z3.InRe(x, ldoc))
    if str(s0.check()) != "sat":
        return {"verdict": "VACUOUS", "message": "documented language empty", "cex": None, "z3_queries": 1, "z3_s": 0, "paths": 0}
    s = z3.Solver()
    s.set("timeout", 120000)
    s.add(z3.InRe(x, ldoc), z3.Not(z3.InRe(x, lterm)))
    t = time.time()
    r = s.check()
    dt = round(time.time() - t, 3)
    if str(r) == "sat":
        name = s.model()[x].as_string()
        return {"verdict": "SAT", "message": f"documented variable name {name!r} is not a VARIABLE token", "cex": {"text": "[ %s = 1 ]" % name}, "z3_queries": 2, "z3_s": dt, "paths": 1}
    if str(r) != "unsat":
        return {"verdict": "CANNOT_CONFIRM", "message": f"solver: {r}", "cex": None, "z3_queries": 2, "z3_s": dt, "paths": 1}
    return {"verdict": "UNSAT", "message": "", "cex": None, "z3_queries": 2, "z3_s": dt, "paths": 1, "witness": {"documented": doc, "terminal": terms["VARIABLE"]},
            "engine": "z3 regular-language inclusion"}


def replay_documented_names(args):
    return replay_tree_equals_source(args)
