"""C05 - errors in match components are handled exactly as the error policy says.

O1 (kernel): the real ErrorHandler.handle_error on a real parsed CsvPath; the policy list is
built from six symbolic bools, the four validation-mode overrides are symbolic Optional[bool].
O2 (in run): a fault provoked on the line whose number equals symbolic @k, under a policy built
from symbolic bools, in a 5-record run; fault kinds: python exception inside a function
(mod(1,0)), argument-value mismatch (add("a",1)), a function's own conversion rule (int("x")),
a fault nested in another function (not(mod(1,0))), all on the right of '->', and a fault in a
plain component (mod by a value that is zero only on line k).
O3: the validation-mode comment overrides the policy for that csvpath.
"""
from typing import List, Optional, Tuple

from crosshair.tracers import NoTracing

from vp.kit import fresh, set_policy
from vp.ob import ob, product
from csvpath.util.error import ErrorHandler
from csvpath.matching.util.exceptions import MatchException

ENC = [
    "csvpath/util/error.py:ErrorHandler.handle_error/_handle_if/build",
    "csvpath/util/error.py:ErrorCommsManager.do_i_raise/do_i_print/do_i_stop/do_i_fail",
    "csvpath/csvpath.py:CsvPath.collect_error/print/stopped/is_valid",
]


def policy_of(r, c, s, f, pr_, q):
    policy = []
    if r:
        policy.append("raise")
    if c:
        policy.append("collect")
    if s:
        policy.append("stop")
    if f:
        policy.append("fail")
    if pr_:
        policy.append("print")
    if q:
        policy.append("quiet")
    return policy


def ov(flag, override):
    return flag if override is None else override


@ob(
    "C05",
    "O1-handler",
    post="_ == (ov(r, vr), (1 if c else 0), ov(s, vs), not ov(f, vf), (1 if ov(pr_, vp) else 0))",
    bound="all 2^6 policy subsets (six symbolic bools) x all 3^4 validation-mode overrides (symbolic Optional[bool]); one "
    "handle_error(ValueError) on a real CsvPath; observed: raised?, collected errors, stopped, is_valid, printer entries",
    outside="logger output",
    encodes=ENC,
    tiers={"quick": {"timeout": 900, "shards": product(q=[False, True])}},
)
def handle(r: bool, c: bool, s: bool, f: bool, pr_: bool, q: bool,
           vr: Optional[bool], vp: Optional[bool], vs: Optional[bool], vf: Optional[bool]) -> Tuple[bool, int, bool, bool, int]:
    p, pr = fresh("$SYM[*][yes()]", [["a"], ["b"]])
    policy = policy_of(r, c, s, f, pr_, q)
    set_policy(p, policy)
    vm = p.modes.validation_mode
    vm._raise_validation_errors = vr
    vm._print_validation_errors = vp
    vm._stop_on_validation_errors = vs
    vm._fail_on_validation_errors = vf
    raised = False
    try:
        ErrorHandler(csvpath=p, error_collector=p).handle_error(ValueError("boom"))
    except MatchException:
        raised = True
    return (raised, len(p.errors or []), p.stopped, p.is_valid, len(pr.lines))


# ------------------------------------------------------------------ O2 in-run faults
NREC = 5
RECS = [[str(i)] for i in range(NREC)]

FAULT = {
    "pyexc": "@k.nocontrib == line_number() -> mod(1, 0)",
    "argval": '@k.nocontrib == line_number() -> add("a", 1)',
    "rule": '@k.nocontrib == line_number() -> int("x")',
    "nested": "@k.nocontrib == line_number() -> not(mod(1, 0))",
    "plain": "mod(1, subtract(line_number(), @k))",
    # a top-level component that decides the match itself: the second cell of line k is not a number (O5 only; see _argtop_records)
    "argtop": "between(#1, 0, 9)",
}


def _argtop_records(k):
    return [[r[0], "x" if i == k else "1"] for i, r in enumerate(RECS)]


def fault_oracle(k, r, c, s, f, pr_, vr, vp, vs, vf):
    """-> (raised, returned lines, s pushes, t pushes, error lines, is_valid, printouts)"""
    fired = 0 <= k < NREC
    R, S, F, P = ov(r, vr), ov(s, vs), ov(f, vf), ov(pr_, vp)
    last = k if (fired and (S or R)) else NREC - 1
    lines = list(range(last + 1))
    ret = [i for i in lines if not (fired and i == k)]
    errs = [k] if (fired and c) else []
    return (fired and R, ret, lines, lines, errs, not (fired and F), 1 if (fired and P) else 0)


def _run_fault(text, k, policy, config_policy=None, records=None):
    p, pr = fresh(text, records or RECS, policy=policy, config_policy=config_policy)
    p.variables["k"] = k
    raised = False
    got = []
    try:
        for l in p.next():
            got.append(int(l[0]))
    except MatchException:
        raised = True
    # a nested fault yields one record per enclosing function: compared as "which lines have a record" / "anything printed"
    errs = sorted(set(e.line_count for e in (p.errors or [])))
    return (raised, got, list(p.variables.get("s", [])), list(p.variables.get("t", [])), errs, p.is_valid, 1 if len(pr.lines) > 0 else 0)


@ob(
    "C05",
    "O2-in-run",
    pre=["{KLO} <= k <= {KHI}"],
    post="_ == fault_oracle(k, r, c, s, f, pr_, None, None, None, None)",
    bound="5 stub records; the offending line k symbolic KLO..KHI (includes 'never'); policy = any subset of raise/collect/stop/"
    "fail/print (five symbolic bools; quick: print fixed per shard); fault kinds as shards; observed: exception reaches caller, returned lines (line k must "
    "not match, later lines processed iff neither stop nor raise), side effects before and after the faulting component, "
    "collected error line numbers, is_valid, printer entries",
    outside="'quiet' (changes logging only; covered by O1); more than one offending line; csvpaths-level policy",
    encodes=ENC + ["csvpath/matching/productions/expression.py:Expression.matches/handle_errors_if", "csvpath/matching/matcher.py:Matcher.matches/clear_errors",
                   "csvpath/matching/functions/args.py:Args.matches/handle_errors_if", "csvpath/matching/functions/function.py:Function.matches/to_value",
                   "csvpath/matching/functions/math/mod.py", "csvpath/matching/functions/math/add.py", "csvpath/matching/functions/math/intf.py"],
    tiers={
        "quick": {"timeout": 900, "K": {"KLO": -1, "KHI": 5}, "shards": product(kind=["pyexc", "argval", "rule", "nested"], pr_=[False, True])},
        "thorough": {"timeout": 3000, "K": {"KLO": -2, "KHI": 6}, "shards": product(kind=list(FAULT), pr_=[False, True], r=[False, True])},
    },
)
def fault_run(kind: str, k: int, r: bool, c: bool, s: bool, f: bool, pr_: bool) -> Tuple[bool, List[int], List[int], List[int], List[int], bool, int]:
    text = '$SYM[*][ push("s", line_number()) %s push("t", line_number()) ]' % FAULT[kind]
    return _run_fault(text, k, policy_of(r, c, s, f, pr_, False))


# ------------------------------------------------------------------ O3 validation-mode comment
VMODES = {
    "no-raise,no-stop": (False, None, False, None),
    "no-stop,no-raise": (False, None, False, None),
    "no-print,raise": (True, False, None, None),
    "no-raise": (False, None, None, None),
    "raise,no-print": (True, False, None, None),
    "stop,fail": (None, None, True, True),
    "no-fail,print": (None, True, None, False),
}


@ob(
    "C05",
    "O3-validation-mode",
    pre=["{KLO} <= k <= {KHI}"],
    post="_ == fault_oracle(k, r, c, s, f, pr_, VMODES[vm][0], VMODES[vm][1], VMODES[vm][2], VMODES[vm][3])",
    bound="as O2 (fault mod(1,0)), with a concrete 'validation-mode' comment per shard overriding raise/print/stop/fail; the "
    "configured policy stays symbolic",
    outside="validation-mode match/no-match",
    encodes=ENC + ["csvpath/modes/validation_mode.py:ValidationMode._update_settings", "csvpath/util/metadata_parser.py:MetadataParser.extract_metadata"],
    tiers={"quick": {"timeout": 900, "K": {"KLO": -1, "KHI": 5}, "shards": product(vm=list(VMODES), pr_=[False], c=[True])},
           "thorough": {"timeout": 3000, "K": {"KLO": -2, "KHI": 6}, "shards": product(vm=list(VMODES), pr_=[False, True])}},
)
def fault_vm(vm: str, k: int, r: bool, c: bool, s: bool, f: bool, pr_: bool) -> Tuple[bool, List[int], List[int], List[int], List[int], bool, int]:
    text = '~ validation-mode: %s ~ $SYM[*][ push("s", line_number()) %s push("t", line_number()) ]' % (vm.replace(",", ", "), FAULT["pyexc"])
    return _run_fault(text, k, policy_of(r, c, s, f, pr_, False))


# ------------------------------------------------------------------ O4 an error and a stop() on the same line
def stopsame_oracle(k, r, c, f, pr_):
    fired = 0 <= k < NREC
    last = k if fired else NREC - 1
    lines = list(range(last + 1))
    ret = [i for i in lines if not (fired and i == k)]
    t = [i for i in lines if not (fired and i == k)]
    errs = [k] if (fired and c) else []
    return (fired and r, ret, lines, t, errs, not (fired and f), 1 if (fired and pr_) else 0)


@ob(
    "C05",
    "O4-error-and-stop-same-line",
    pre=["{KLO} <= k <= {KHI}"],
    post="_ == stopsame_oracle(k, r, c, f, pr_)",
    bound="as O2, with a stop() firing on the offending line after the faulting component and another component after the stop",
    outside="other orders of fault and stop",
    encodes=ENC + ["csvpath/matching/matcher.py:Matcher.matches (stopped branch)/clear_errors"],
    tiers={"quick": {"timeout": 900, "K": {"KLO": -1, "KHI": 5}, "shards": product(pr_=[False, True])}},
)
def fault_stop_same(k: int, r: bool, c: bool, f: bool, pr_: bool) -> Tuple[bool, List[int], List[int], List[int], List[int], bool, int]:
    text = '$SYM[*][ push("s", line_number()) %s stop(@k == line_number()) push("t", line_number()) ]' % FAULT["pyexc"]
    return _run_fault(text, k, policy_of(r, c, False, f, pr_, False))


# ------------------------------------------------------------------ O5 validation-mode 'match'
MATCH_MODES = {"match": (None, None, None, None), "match,no-raise,stop": (False, None, True, None), "match,no-fail": (None, None, None, False)}
# validation-mode says no-match: the offending line does not match - and only that line (argument errors; shards kind argval/argtop)
NOMATCH_MODES = {"no-match": (None, None, None, None), "no-match,no-raise": (False, None, None, None)}


def match_oracle(kind, k, r, c, s, f, pr_, vm):
    vr, vp, vs, vf = MATCH_MODES[vm] if vm in MATCH_MODES else NOMATCH_MODES[vm]
    raised, ret, s_, t_, errs, valid, printed = fault_oracle(k, r, c, s, f, pr_, vr, vp, vs, vf)
    fired = 0 <= k < NREC
    # validation-mode says match: a python exception inside a function leaves the offending line matching
    # validation-mode says match: the offending line still matches (for an argument error unless the validation-mode itself says
    # stop: that stop is applied inside the function, in the middle of the line)
    k_returned = fired and not raised and (kind == "pyexc" or vs is not True) and vm in MATCH_MODES
    return (raised, [i for i in ret if i != k], s_, [i for i in t_ if i != k], errs, valid, printed, k_returned)


@ob(
    "C05",
    "O5-validation-match",
    pre=["{KLO} <= k <= {KHI}"],
    post="_ == match_oracle(kind, k, r, c, s, f, pr_, vm)",
    bound="as O2, under validation-mode comments containing 'match' (alone, with 'no-raise, stop', with 'no-fail'): the policy flags "
    "and their overrides decide raise/collect/stop/fail/print exactly as before; the offending line still "
    "matches (for an argument-value error unless the run is stopped on it; whether later components of that line run is not compared); "
    "under 'no-match' comments (kind argtop) the offending line does not match and every other line is decided as without the error; kind argtop: the offending function is itself a top-level component that decides the match (a non-numeric cell on line k). "
    "The configuration file held another policy ('raise, collect') when the CsvPath was created: only the policy assigned afterwards counts",
    outside="match-mode semantics of the offending line for argument errors",
    encodes=ENC + ["csvpath/matching/functions/function.py:Function.matches (argument errors handled in place)", "csvpath/matching/functions/args.py:Args.handle_errors_if",
                   "csvpath/matching/productions/expression.py:Expression.matches (match_validation_errors)", "csvpath/modes/validation_mode.py"],
    tiers={"quick": {"timeout": 900, "K": {"KLO": -1, "KHI": 5}, "shards": product(kind=["pyexc", "argval", "argtop"], vm=list(MATCH_MODES), pr_=[False], r=[False])
                     + product(kind=["argtop"], vm=list(NOMATCH_MODES), pr_=[False], r=[False])},
           "thorough": {"timeout": 3000, "K": {"KLO": -1, "KHI": 5}, "shards": product(kind=["pyexc", "argval", "argtop"], vm=list(MATCH_MODES), pr_=[False, True])
                        + product(kind=["argval", "argtop"], vm=list(NOMATCH_MODES), pr_=[False, True])}},
)
def fault_match(kind: str, vm: str, k: int, r: bool, c: bool, s: bool, f: bool, pr_: bool) -> Tuple[bool, List[int], List[int], List[int], List[int], bool, int, bool]:
    text = '~ validation-mode: %s ~ $SYM[*][ push("s", line_number()) %s push("t", line_number()) ]' % (vm.replace(",", ", "), FAULT[kind])
    # the configuration file said 'raise, collect' when the CsvPath was created; the policy in force is the one assigned afterwards
    raised, ret, s_, t_, errs, valid, printed = _run_fault(text, k, policy_of(r, c, s, f, pr_, False), config_policy="raise, collect",
                                                           records=_argtop_records(k) if kind == "argtop" else None)
    return (raised, [i for i in ret if i != k], s_, [i for i in t_ if i != k], errs, valid, printed, (k in ret))
