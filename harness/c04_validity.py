"""C04 - the validity verdict is False exactly when the csvpath failed the file.

O1 (run): conditional fail()/fail_and_stop() firing on symbolic line @kf, optionally preceded
by a stop()/skip() firing on symbolic line @ks; 'push("v", valid()) push("f", failed())' after
them on every line; observed: the per-line verdicts, the final is_valid, the returned lines.
O2 (run): a fail() on line @kf and an error-provoking component on line @ke under a policy with
or without 'fail' (symbolic): the verdict is monotone and an error changes it iff 'fail'.
O3 (aggregation): ResultsManager.is_valid(name) and ResultsRegistrar.all_valid/all_completed/
error_count over 1-4 real Result objects whose members' verdicts / error counts are symbolic.
"""
from typing import List, Tuple

from crosshair.tracers import NoTracing

from vp.kit import fresh, set_policy
from vp.ob import ob, product
from csvpath.matching.util.exceptions import MatchException

NREC = 5
RECS = [[str(i)] for i in range(NREC)]

TPL = {
    "fail-when": '$SYM[*][ @kf.nocontrib == line_number() -> fail() push("v", valid()) push("f", failed()) ]',
    "fail-and-stop-when": '$SYM[*][ @kf.nocontrib == line_number() -> fail_and_stop() push("v", valid()) push("f", failed()) ]',
    "fail-and-stop-arg": '$SYM[*][ fail_and_stop(@kf == line_number()) push("v", valid()) push("f", failed()) ]',
    "stop-before-fail": '$SYM[*][ stop(@ks == line_number()) @kf.nocontrib == line_number() -> fail() push("v", valid()) push("f", failed()) ]',
    "skip-before-fail": '$SYM[*][ skip(@ks == line_number()) @kf.nocontrib == line_number() -> fail() push("v", valid()) push("f", failed()) ]',
    "fail-onmatch": '$SYM[*][ gt(line_number(), @ks) fail.onmatch() push("v", valid()) push("f", failed()) ]',
    # a last() component runs before the fail on the last line (it freezes and re-freezes the variables; the verdict is never frozen)
    "last-before-fail": '$SYM[*][ last.nocontrib() -> @l = 1 #1.nocontrib == "F" -> fail() push("v", valid()) push("f", failed()) ]',
    "fail-all-when": '$SYM[*][ @kf.nocontrib == line_number() -> fail_all() push("v", valid()) push("f", failed()) ]',
}


def verdict_oracle(tpl, kf, ks):
    """-> (v pushes, f pushes, final is_valid, returned lines)"""
    valid = True
    v, ret = [], []
    for i in range(NREC):
        if tpl in ("fail-when", "fail-all-when", "last-before-fail"):
            if i == kf:
                valid = False
            v.append(valid)
            ret.append(i)
        elif tpl in ("fail-and-stop-when", "fail-and-stop-arg"):
            if i == kf:
                valid = False
                break  # stopped: nothing later on this line, no later line
            v.append(valid)
            ret.append(i)
        elif tpl == "stop-before-fail":
            if i == ks:
                break
            if i == kf:
                valid = False
            v.append(valid)
            ret.append(i)
        elif tpl == "skip-before-fail":
            if i == ks:
                continue
            if i == kf:
                valid = False
            v.append(valid)
            ret.append(i)
        elif tpl == "fail-onmatch":
            if i > ks:
                valid = False
                ret.append(i)
            v.append(valid)
    if tpl == "fail-onmatch":
        # the onmatch look-ahead evaluates the sibling valid() before fail.onmatch() itself runs; the per-line
        # reading on the firing line is therefore not compared, only the final verdict and the returned lines
        return ([], [], valid, ret)
    if tpl == "last-before-fail":
        # once last() has run on the last line the variables are frozen: the two pushes of that line do not happen; the verdict is not frozen
        v = v[:-1]
    return (v, [not x for x in v], valid, ret)


ENC = [
    "csvpath/matching/functions/validity/fail.py:Fail/FailAll._decide_match",
    "csvpath/matching/functions/validity/failed.py:Failed/Valid",
    "csvpath/matching/functions/lines/stop.py:Stopper._stop_me (fail_and_stop)",
    "csvpath/csvpath.py:CsvPath.is_valid/next/_consider_line",
    "csvpath/matching/matcher.py:Matcher.matches",
]


@ob(
    "C04",
    "O1-verdict-per-line",
    pre=["{LO} <= kf <= {HI}", "{LO} <= ks <= {HI}"],
    post="_ == verdict_oracle(tpl, kf, ks)",
    bound="5 stub records; fail line kf and stop/skip line (or match threshold) ks symbolic LO..HI (never-firing values "
    "included); templates: fail() / fail_and_stop() / fail_all() under '->', fail_and_stop(cond), stop or skip before the fail, "
    "fail.onmatch(), a last() component before a fail that reads its condition from the line; observed after the fail component on every line: valid(), failed(); final is_valid; returned lines",
    outside="more than 5 records",
    encodes=ENC,
    tiers={"quick": {"timeout": 900, "K": {"LO": -1, "HI": 5}, "shards": product(tpl=list(TPL))},
           "thorough": {"timeout": 2400, "K": {"LO": -2, "HI": 6}, "shards": product(tpl=list(TPL))}},
)
def verdict_run(tpl: str, kf: int, ks: int) -> Tuple[List[bool], List[bool], bool, List[int]]:
    recs = RECS
    if tpl == "last-before-fail":
        # the fail condition is read from the line itself (second cell 'F' on line kf): functions are frozen once last() has run
        recs = [[r[0], "F" if i == kf else "-"] for i, r in enumerate(RECS)]
    p, pr = fresh(TPL[tpl], recs)
    p.variables["kf"] = kf
    p.variables["ks"] = ks
    got = [int(l[0]) for l in p.next()]
    if tpl == "fail-onmatch":
        return ([], [], p.is_valid, got)
    return (list(p.variables.get("v", [])), list(p.variables.get("f", [])), p.is_valid, got)


# ------------------------------------------------------------------ O2 fail() and a handled error
ERR_TPL = '$SYM[*][ @kf.nocontrib == line_number() -> fail() @ke.nocontrib == line_number() -> mod(1, 0) push("v", valid()) ]'


def err_oracle(kf, ke, f, s):
    valid = True
    v = []
    for i in range(NREC):
        if i == kf:
            valid = False
        v.append(valid)
        if i == ke:
            # the error is handled when the line is finished
            if f:
                valid = False
            if s:
                break
    return (v, valid)


@ob(
    "C04",
    "O2-fail-and-error",
    pre=["{LO} <= kf <= {HI}", "{LO} <= ke <= {HI}"],
    post="_ == err_oracle(kf, ke, f, s)",
    bound="5 stub records; a fail() on symbolic line kf and an error (mod(1,0)) on symbolic line ke; policy = collect + "
    "symbolic 'fail' + symbolic 'stop'; verdict per line and at the end: once False never True again; an error under a "
    "policy without 'fail' never changes it",
    outside="policies with raise (C05)",
    encodes=ENC + ["csvpath/util/error.py:ErrorHandler._handle_if"],
    tiers={"quick": {"timeout": 900, "K": {"LO": -1, "HI": 5}}, "thorough": {"timeout": 2400, "K": {"LO": -2, "HI": 6}}},
)
def fail_and_error(kf: int, ke: int, f: bool, s: bool) -> Tuple[List[bool], bool]:
    policy = ["collect"]
    if f:
        policy.append("fail")
    if s:
        policy.append("stop")
    p, pr = fresh(ERR_TPL, RECS, policy=policy)
    p.variables["kf"] = kf
    p.variables["ke"] = ke
    p.fast_forward()
    return (list(p.variables.get("v", [])), p.is_valid)


# ------------------------------------------------------------------ O3 aggregation
_AGG = None


def _agg_objects():
    """real CsvPaths + 4 real Results of members that ran; built once per process (natively), mutated per path"""
    global _AGG
    if _AGG is None:
        from csvpath import CsvPaths
        from csvpath.managers.results.result import Result
        from csvpath.managers.results.results_registrar import ResultsRegistrar

        with NoTracing():
            cs = CsvPaths()
            cs.logger.disabled = True
            members = []
            for i in range(4):
                p, pr = fresh("$SYM[*][yes()]", [["a"], ["b"]])
                p.fast_forward()
                members.append(Result(csvpath=p, file_name="f", paths_name="g", run_index=i, run_time=None, run_dir="archive/g/r", lines=[]))
            rr = ResultsRegistrar(csvpaths=cs, run_dir="archive/g/r", pathsname="g", results=None)
            _AGG = (cs, members, rr)
    return _AGG


def valid_oracle(n, v1, v2, v3, v4):
    vs = [v1, v2, v3, v4][:n]
    return (all(vs), all(vs))


@ob(
    "C04",
    "O3-aggregate-validity",
    pre=["1 <= n <= 4"],
    post="_ == valid_oracle(n, v1, v2, v3, v4)",
    bound="1-4 real Result objects (members that ran) with symbolic verdicts: ResultsManager.is_valid(name) and "
    "ResultsRegistrar.all_valid() are the conjunction",
    outside="members that never ran (run-mode no-run); reloaded results",
    encodes=["csvpath/managers/results/results_manager.py:ResultsManager.is_valid/get_named_results", "csvpath/managers/results/results_registrar.py:ResultsRegistrar.all_valid",
             "csvpath/managers/results/result.py:Result.is_valid"],
    tiers={"quick": {"timeout": 600}},
)
def aggregate_validity(n: int, v1: bool, v2: bool, v3: bool, v4: bool) -> Tuple[bool, bool]:
    cs, members, rr = _agg_objects()
    vs = [v1, v2, v3, v4]
    for i in range(4):
        members[i].csvpath.is_valid = vs[i]
    results = members[:n]
    cs.results_manager.named_results["g"] = results
    rr.results = results
    return (cs.results_manager.is_valid("g"), rr.all_valid())


@ob(
    "C04",
    "O3-aggregate-error-count",
    pre=["1 <= n <= 4", "0 <= e1 <= 2 and 0 <= e2 <= 2 and 0 <= e3 <= 2 and 0 <= e4 <= 2"],
    post="_ == sum([e1, e2, e3, e4][:n])",
    bound="1-4 real Result objects with symbolic numbers (0..2) of collected errors: ResultsRegistrar.error_count() is the sum",
    encodes=["csvpath/managers/results/results_registrar.py:ResultsRegistrar.error_count", "csvpath/managers/results/result.py:Result.errors_count/collect_error"],
    tiers={"quick": {"timeout": 600}},
)
def aggregate_errors(n: int, e1: int, e2: int, e3: int, e4: int) -> int:
    from csvpath.util.error import Error

    cs, members, rr = _agg_objects()
    es = [e1, e2, e3, e4]
    for i in range(4):
        members[i]._errors = []
        for _ in range(es[i]):
            members[i].collect_error(Error())
    rr.results = members[:n]
    return rr.error_count()


# ------------------------------------------------------------------ O4 fail_all() in a named-paths run
from vp import kit, kitpaths  # noqa: E402

kit.register("symkf", "symka")
FA_MEMBERS = [
    '~id:m0~ $[*][ symkf.nocontrib() == line_number() -> fail()  symka.nocontrib() == line_number() -> fail_all() ]',
    '~id:m1~ $[*][ push("v", valid()) ]',
]


def failall_oracle(kf, ka):
    n = kitpaths.NDATA
    f = 0 <= kf < n
    a = 0 <= ka < n
    v1 = [not (a and ka <= i) for i in range(n)]
    m0 = not (f or a)
    m1 = not a
    # a further run on the same instance in which nothing fails starts valid again
    return (m0, m1, v1, m0 and m1, m0 and m1, True, True, [True] * n)


@ob(
    "C04",
    "O4-fail-all-in-group",
    pre=["-1 <= kf <= 5 and -1 <= ka <= 5"],
    post="_ == failall_oracle(kf, ka)",
    bound="breadth-first run of a group of 2 over a 5-record file; member m0 executes fail() on symbolic line kf and fail_all() on "
    "symbolic line ka (before, on, or after kf; 'never' included); observed: both members' final verdicts, m1's valid() on every "
    "line, results_manager.is_valid(group) and the run manifest's all_valid; then a second run on the same instance in which "
    "nothing fails: both members valid on every line",
    outside="serial methods (fail_all() there only concerns the calling csvpath); groups of more than 2",
    encodes=ENC + ["csvpath/matching/functions/validity/fail.py:FailAll._decide_match", "csvpath/csvpaths.py:CsvPaths.fail_all/next_by_line (_fail_all)",
                   "csvpath/managers/results/results_manager.py:ResultsManager.is_valid", "csvpath/managers/results/results_registrar.py:ResultsRegistrar.all_valid"],
    tiers={"quick": {"timeout": 1800, "shards": product(kf=[-1, 1, 3])}, "thorough": {"timeout": 5000}},
)
def failall_run(kf: int, ka: int) -> Tuple[bool, bool, List[bool], bool, bool, bool, bool, List[bool]]:
    import os

    kit.HOLD.update(symkf=kf, symka=ka)
    with NoTracing():
        root, cs = kitpaths.env({"g": FA_MEMBERS}, policy="collect, print")
    cs.fast_forward_by_line(filename="data", pathsname="g")
    rs = cs.results_manager.get_named_results("g")
    out = (rs[0].csvpath.is_valid, rs[1].csvpath.is_valid, list(rs[1].csvpath.variables.get("v", [])), cs.results_manager.is_valid("g"))
    with NoTracing():
        run = os.path.join("archive/g", sorted(os.listdir("archive/g"))[0])
        man = kitpaths.read_json(os.path.join(run, "manifest.json"))
    kit.HOLD.update(symkf=-1, symka=-1)
    cs.fast_forward_by_line(filename="data", pathsname="g")
    rs2 = cs.results_manager.get_named_results("g")
    again = (rs2[0].csvpath.is_valid, rs2[1].csvpath.is_valid, list(rs2[1].csvpath.variables.get("v", [])))
    with NoTracing():
        kitpaths.cleanup(root)
    return out + (man.get("all_valid"),) + again


# ------------------------------------------------------------------ O5 an error and a stop() on the same line, policy with 'fail'
ERRSTOP_TPL = '$SYM[*][ push("s", line_number()) @ke.nocontrib == line_number() -> mod(1, 0) stop(@ke == line_number()) push("t", line_number()) ]'


@ob(
    "C04",
    "O5-error-then-stop-same-line",
    pre=["{LO} <= ke <= {HI}"],
    post="_ == ((not (f and 0 <= ke < 5)), [i for i in range(5) if ke < 0 or ke >= 5 or i <= ke])",
    bound="5 stub records; on symbolic line ke a component raises and a later component of the same line calls stop(), one more "
    "component follows; policy collect + symbolic 'fail': the verdict is False iff 'fail' is in the policy and the error happened",
    outside="other orders of the erroring and the stopping component",
    encodes=ENC + ["csvpath/matching/matcher.py:Matcher.matches (stopped branch) / clear_errors", "csvpath/util/error.py:ErrorHandler._handle_if"],
    tiers={"quick": {"timeout": 600, "K": {"LO": -1, "HI": 5}}},
)
def error_then_stop(ke: int, f: bool) -> Tuple[bool, List[int]]:
    policy = ["collect"]
    if f:
        policy.append("fail")
    p, pr = fresh(ERRSTOP_TPL, RECS, policy=policy)
    p.variables["ke"] = ke
    p.fast_forward()
    return (p.is_valid, list(p.variables.get("s", [])))
