"""C08 - a csvpath gives the same results alone, in a serial run and breadth-first.

Relational harness over a real CsvPaths in a scratch directory: a group of 2-3 members whose
thresholds / stop lines are symbolic ints supplied through external functions (no cross-path
signals, references or line rewriting).  Each member is run (1) by a standalone CsvPath,
(2) by collect_paths, (3) by collect_by_line with symbolic if_all_agree; per member the lines,
variables, printouts, validity and counters must agree, and the lines returned to the caller of
the breadth-first run must be, per line, the union / intersection of the members' decisions.
"""
from typing import Dict, List, Tuple

from crosshair.tracers import NoTracing

from vp import kit, kitpaths
from vp.kit import CapPrinter
from vp.ob import ob, product
from csvpath import CsvPath

kit.register("symta", "symtb", "symkb", "symtc")

MEMBERS = {
    "a": '~id:a~ $[*][ push("s", line_number()) gt(line_number(), symta()) print("a $.csvpath.line_number") ]',
    "b": '~id:b~ $[*][ stop(symkb() == line_number()) @c = count_lines() gt(line_number(), symtb()) ]',
    "c": '~id:c return-mode: no-matches~ $[*][ push("u", line_number()) gt(line_number(), symtc()) ]',
    "d": '~id:d run-mode: no-run~ $[*][ push("w", line_number()) print("d ran") ]',
    "e": '~id:e~ $[*][ push("x", line_number()) last.nocontrib() -> @lastat = line_number() gt(line_number(), symta()) print("e $.csvpath.line_number") ]',
}
# the same file with a blank first line (the headers are then the first non-blank record)
DATA_LEAD_BLANK = "\n" + kitpaths.DATA
# the same file ending in blank lines
DATA_TRAIL_BLANK = kitpaths.DATA + "\n\n"
ND = kitpaths.NDATA


def _state(p, lines, printouts, valid=None):
    return ([list(x) for x in lines], kitpaths.plain_vars(p.variables), list(printouts), p.is_valid if valid is None else valid, p.scan_count, p.match_count)


def _standalone(text):
    with NoTracing():
        p = CsvPath(print_default=False)
        p.logger.disabled = True
        cap = CapPrinter()
        p.add_printer(cap)
        p.parse(text.replace("$[", "$data.csv[", 1))
    lines = p.collect()
    return _state(p, lines, cap.lines)


def _group_states(cs):
    out = []
    for r in cs.results_manager.get_named_results("g"):
        # validity as the results manager reports it for the member (Result.is_valid), not only the csvpath's own flag
        out.append(_state(r.csvpath, kitpaths.result_lines(r), r.printouts, valid=(r.is_valid and r.csvpath.is_valid) if r.csvpath.will_run else r.csvpath.is_valid))
    return out


ENC = ["csvpath/csvpaths.py:CsvPaths.collect_paths/_load_csvpath/collect_by_line/next_by_line/_load_csvpath_objects",
       "csvpath/csvpath.py:CsvPath.collect/next/_consider_line/track_line", "csvpath/managers/results/result.py:Result (printer, lines)",
       "csvpath/managers/results/results_manager.py:ResultsManager.add_named_result/get_named_results"]


@ob(
    "C08",
    "O1-alone-serial-breadth",
    pre=["{LO} <= ta <= {HI} and {LO} <= tb <= {HI} and {LO} <= kb <= {HI} and {LO} <= tc <= {HI}"],
    post="_ == ''",
    bound="group given by the shard (2-3 members in a given order) over a 5-record file; run methods per shard kind: collect_paths/"
    "collect_by_line, fast_forward_paths/fast_forward_by_line, next_paths/next_by_line; member thresholds and the stop line "
    "symbolic LO..HI, if_all_agree symbolic; compared: standalone collect() vs collect_paths vs collect_by_line per member (lines, "
    "variables, printouts, validity, scan/match counters) and the caller-visible lines of the breadth-first run",
    outside="groups of 4; symbolic cell text (the symbolic ints are realised when results are archived, so the solver drives a "
    "walk over the box; each path ends in a z3-checked assertion); next_*/fast_forward_* variants (thorough)",
    encodes=ENC,
    tiers={"quick": {"timeout": 2400, "K": {"LO": -1, "HI": 3}, "shards": product(order=["ab"], tc=[0], tb=[0], kb=[-1, 2], agree=[False, True]) + product(order=["ba"], tc=[0], tb=[0], kb=[1], agree=[False, True])
                     + product(order=["ac", "ca"], tb=[0], kb=[-1], agree=[False, True], ta=[1])
                     + product(order=["ab"], tc=[0], tb=[0], kb=[2], agree=[False], kind=["ff", "next"])
                     + product(order=["ad", "da"], tc=[0], tb=[0], kb=[-1], agree=[False]) + product(order=["ab"], tc=[0], tb=[0], kb=[2], agree=[False], lead=[True])
                     + product(order=["ea"], tc=[0], tb=[0], kb=[-1], agree=[False], trail=[True, False])},
           "thorough": {"timeout": 6000, "K": {"LO": -1, "HI": 5}, "shards": product(order=["ab", "ba", "abc", "cab"], agree=[False, True], tb=[-1, 1, 3], tc=[0, 2])
                     + product(order=["ab", "cab"], agree=[False, True], tb=[0], tc=[1], kind=["ff", "next"])
                     + product(order=["ad", "da", "adb"], agree=[False, True], tb=[0], tc=[1]) + product(order=["ab", "ca"], agree=[False, True], tb=[0], tc=[1], lead=[True])
                     + product(order=["ea", "be"], agree=[False, True], tb=[0], tc=[1], trail=[True, False])}},
)
def schedules(order: str, agree: bool, ta: int, tb: int, kb: int, tc: int, kind: str = "collect", lead: bool = False, trail: bool = False) -> str:
    kit.HOLD["symta"] = ta
    kit.HOLD["symtb"] = tb
    kit.HOLD["symkb"] = kb
    kit.HOLD["symtc"] = tc
    texts = [MEMBERS[m] for m in order]
    with NoTracing():
        root, cs = kitpaths.env({"g": texts}, data=DATA_LEAD_BLANK if lead else (DATA_TRAIL_BLANK if trail else kitpaths.DATA))
    alone = [_standalone(t) for t in texts]
    with NoTracing():
        cs2 = kitpaths.new_instance()
    serial_yield = None
    if kind == "collect":
        cs.collect_paths(filename="data", pathsname="g")
        got = cs2.collect_by_line(filename="data", pathsname="g", if_all_agree=agree)
    elif kind == "ff":
        # the serial instance is reused: an earlier run of the same group must not leak into this one
        cs.collect_paths(filename="data", pathsname="g")
        cs.fast_forward_paths(filename="data", pathsname="g")
        cs2.fast_forward_by_line(filename="data", pathsname="g", if_all_agree=agree)
        got = None
    else:
        serial_yield = [list(x) for x in cs.next_paths(filename="data", pathsname="g")]
        got = [list(x) for x in cs2.next_by_line(filename="data", pathsname="g", if_all_agree=agree)]
    serial = _group_states(cs)
    byline = _group_states(cs2)
    with NoTracing():
        kitpaths.cleanup(root)
    problems = ""
    if len(serial) != len(order) or len(byline) != len(order):
        return "the group has %d members but the serial run left %d results and the breadth-first run %d" % (len(order), len(serial), len(byline))
    for i, m in enumerate(order):
        a, se, by = alone[i], serial[i], byline[i]
        if kind != "collect":
            # fast_forward/next do not keep lines in the results: compare everything but the lines
            a, se, by = a[1:], se[1:], by[1:]
        if a != se:
            problems += "member %s: standalone != serial run; " % m
        if a != by:
            problems += "member %s: standalone != breadth-first run; " % m
    if serial_yield is not None:
        want_serial = []
        for i in range(len(order)):
            want_serial += alone[i][0]
        if serial_yield != want_serial:
            problems += "lines yielded by next_paths differ from the members' own lines; "
    # caller-visible lines: per record, union / intersection of the decisions of the members still running on it
    want = []
    recs = _records()
    for ln, rec in enumerate(recs):
        if not rec:
            continue
        votes = []
        for i in range(len(order)):
            lines, _v, _p, _valid, scans, _mc = alone[i]
            if ln < scans:  # the member evaluated this line (scan '*' and no blank records: scan count = lines seen)
                votes.append(rec in lines)
        if not votes:
            continue
        keep = all(votes) if agree else any(votes)
        if keep:
            want.append(rec)
    if got is not None and [list(x) for x in got] != want:
        problems += "caller lines of the breadth-first run differ; "
    return problems


def _records():
    import csv
    import io

    return [r for r in csv.reader(io.StringIO(kitpaths.DATA))]


def _votes_base(lead):
    return 1 if lead else 0


# ------------------------------------------------------------------ O2 lines of identical content
DATA_DUP = "h1,h2\nx,y\nx,y\nz,w\nx,y\n"
RECS_DUP = [["h1", "h2"], ["x", "y"], ["x", "y"], ["z", "w"], ["x", "y"]]
DUP_MEMBERS = ['~id:a~ $[*][ gt(line_number(), symta()) ]', '~id:c~ $[*][ not(gt(line_number(), symtc())) ]']


@ob(
    "C08",
    "O2-identical-lines",
    pre=["{LO} <= ta <= {HI}"],
    post="_ == ''",
    bound="two members (line_number() > ta; not line_number() > tc; every tc of the window is a shard) over a 5-record file "
    "with three records of identical content; ta, tc symbolic LO..HI, if_all_agree symbolic: the caller of collect_by_line and of "
    "next_by_line gets, per physical line, the union / intersection of the members' decisions - a line is not dropped or merged "
    "because an identical one was already returned; each member's own lines likewise",
    outside="more than two members; stop/skip inside the members (O1)",
    encodes=ENC,
    tiers={"quick": {"timeout": 1200, "K": {"LO": -1, "HI": 5}, "shards": product(agree=[False, True], tc=[-1, 0, 1, 2, 3, 4, 5])}},
)
def identical_lines(agree: bool, ta: int, tc: int) -> str:
    kit.HOLD["symta"] = ta
    kit.HOLD["symtc"] = tc
    va = [i > ta for i in range(5)]
    vc = [i <= tc for i in range(5)]
    want = [RECS_DUP[i] for i in range(5) if ((va[i] and vc[i]) if agree else (va[i] or vc[i]))]
    with NoTracing():
        root, cs = kitpaths.env({"g": DUP_MEMBERS}, data=DATA_DUP)
        cs2 = kitpaths.new_instance()
    got = [list(x) for x in cs.collect_by_line(filename="data", pathsname="g", if_all_agree=agree)]
    got2 = [list(x) for x in cs2.next_by_line(filename="data", pathsname="g", if_all_agree=agree)]
    members = _group_states(cs)
    problems = ""
    with NoTracing():
        if got != want:
            problems += f"collect_by_line returned {got}, expected {want}; "
        if got2 != want:
            problems += f"next_by_line yielded {got2}, expected {want}; "
        wa = [RECS_DUP[i] for i in range(5) if va[i]]
        wc = [RECS_DUP[i] for i in range(5) if vc[i]]
        if len(members) == 2 and (members[0][0] != wa or members[1][0] != wc):
            problems += f"members kept {members[0][0]} / {members[1][0]}, expected {wa} / {wc}; "
        kitpaths.cleanup(root)
    return problems
