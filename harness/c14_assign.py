"""C14 - assignment qualifiers decide the vote and the write per docs/assignment.md.

O2 (E1): one real CsvPath._consider_line on '[ @x = @y  @m.asbool ]'.  The qualifier list of
the left-hand Variable is set from symbolic bools (the list is exactly what the parser builds
for '@x.<q1>.<q2>... = @y', checked natively for the parser in O0), so Equality._do_assignment,
_do_assignment_new_impl, _latch_and_onchange, _set_variable_if, Qualified.line_matches
(onmatch look-ahead) and the match-count effects are the real ones.  The pre-state of x is
symbolic, so one step covers value sequences of any length (inductive step).
"""
from typing import Optional, Tuple

from crosshair.tracers import NoTracing

from vp.kit import fresh
from vp.ob import ob, product
from csvpath.matching.matcher import Matcher
import os

QUALS = ["onmatch", "latch", "onchange", "increase", "decrease", "notnone", "asbool", "nocontrib"]


def asbool_of(y) -> bool:
    """docs: like bool(x) plus "true"/"false"; ints and None here"""
    if y is None:
        return False
    return y != 0


def assign_oracle(onmatch, latch, onchange, increase, decrease, notnone, asbool, nocontrib, cur, y, rest):
    """-> (value of x afterwards, vote of the assignment).  Written from docs/assignment.md:
    onmatch gates everything; notnone, then increase/decrease, then latch/onchange decide the
    write and a negative vote when they block (latch never votes negative); asbool replaces a
    positive vote by the truth of y; nocontrib makes the vote neutral."""
    new = cur
    vote = True
    if onmatch and not rest:
        vote = False
    else:
        blocked_by_latch = latch and cur is not None and cur != y
        same = cur == y
        if (latch or onchange) and same:
            # nothing to write; onchange votes negative, latch alone stays positive
            if onchange:
                vote = False
        elif blocked_by_latch:
            pass  # no write, positive vote
        else:
            if notnone and y is None:
                vote = False
            elif increase and (y is None or (cur is not None and not y > cur)):
                vote = False
            elif decrease and (y is None or (cur is not None and not y < cur)):
                vote = False
            else:
                new = y
    if asbool and vote:
        vote = asbool_of(y)
    if nocontrib:
        vote = True
    return (new, vote)


def step_oracle(onmatch, latch, onchange, increase, decrease, notnone, asbool, nocontrib, cur, y, m):
    new, vote = assign_oracle(onmatch, latch, onchange, increase, decrease, notnone, asbool, nocontrib, cur, y, m)
    return (new, vote and m)


ENC = [
    "csvpath/matching/productions/equality.py:Equality.matches/_do_assignment/_do_assignment_new_impl/_latch_and_onchange/_set_variable_if",
    "csvpath/matching/productions/qualified.py:Qualified.line_matches/has_qualifier/onmatch..nocontrib properties",
    "csvpath/matching/productions/variable.py:Variable.to_value/matches",
    "csvpath/matching/matcher.py:Matcher.matches/get_variable/set_variable",
    "csvpath/csvpath.py:CsvPath._consider_line/set_variable/get_variable",
]

TEXT = '$SYM[*][ @x = @y  @m.asbool ]'


def build(text, quals, tracking=None, index=0):
    p, pr = fresh(text, [["h"], ["a"]])
    with NoTracing():
        p.matcher = Matcher(csvpath=p, data=p.match, line=["h"], headers=p.headers, myid="verif")
        p.matcher.AND = p.AND
        eq = p.matcher.expressions[index][0].children[0]
        assert eq.op == "=" and eq.left.name == "x", eq
    qs = []
    if tracking:
        qs.append(tracking)
    for q, on in zip(QUALS, quals):
        if on:
            qs.append(q)
    eq.left.qualifiers = qs
    return p, pr, eq


@ob(
    "C14",
    "O2-step",
    pre=["cur is None or {LO} <= cur <= {HI}", "y is None or {LO} <= y <= {HI}"],
    post="_ == step_oracle(onmatch, latch, onchange, increase, decrease, notnone, asbool, nocontrib, cur, y, m)",
    bound="all qualifier subsets (8 symbolic bools; increase and decrease together: both guards apply), pre-state cur and new "
    "value y symbolic Optional[int] LO..HI, rest-of-line m symbolic; one real _consider_line; observed: x afterwards and whether "
    "the line matched (= vote and m)",
    outside="string-valued y; the vote when the rest of the line does not match (not observable from the line result)",
    encodes=ENC,
    findings=[],
    tiers={
        "quick": {"timeout": 900, "K": {"LO": -2, "HI": 3}, "shards": product(onmatch=[False, True], latch=[False, True], onchange=[False, True], asbool=[False, True])},
        "thorough": {"timeout": 3000, "K": {"LO": -2, "HI": 11}, "shards": product(onmatch=[False, True], latch=[False, True], onchange=[False, True], asbool=[False, True], notnone=[False, True])},
    },
)
def assign_step(onmatch: bool, latch: bool, onchange: bool, increase: bool, decrease: bool, notnone: bool, asbool: bool, nocontrib: bool,
                cur: Optional[int], y: Optional[int], m: bool) -> Tuple[Optional[int], bool]:
    p, pr, eq = build(TEXT, [onmatch, latch, onchange, increase, decrease, notnone, asbool, nocontrib])
    if cur is not None:
        p.variables["x"] = cur
    if y is not None:
        p.variables["y"] = y
    p.variables["m"] = m
    p.track_line(["h"])
    ret = p._consider_line(["h"])
    return (p.variables.get("x"), ret)


def parser_quals_ok() -> bool:
    """O0: for all 256 subsets the real parser builds exactly the qualifier list the harness sets."""
    import itertools
    from csvpath import CsvPath

    for bits in itertools.product([False, True], repeat=8):
        qs = [q for q, on in zip(QUALS, bits) if on]
        text = "$SYM[*][ @x%s = @y  @m.asbool ]" % "".join("." + q for q in qs)
        p, pr = fresh(text, [["h"], ["a"]])
        m = Matcher(csvpath=p, data=p.match, line=["h"], headers=p.headers, myid="verif")
        eq = m.expressions[0][0].children[0]
        if list(eq.left.qualifiers) != qs or eq.left.name != "x":
            return False
    return True


# ------------------------------------------------------------------ O1a (E3): AST -> z3 translation of the decision kernel
def _e3_build():
    import z3
    from vp.e3_pyk2smt import Interp, OptInt, ite
    from csvpath.matching.productions.equality import Equality

    AND = z3.Bool("AND")
    q = {k: z3.Bool(k) for k in QUALS}
    cur, y = OptInt.fresh("cur"), OptInt.fresh("y")
    lm = z3.Bool("lm")
    st = {"written": z3.BoolVal(False), "wval": OptInt.none()}

    def set_variable(I, fr, name, value=None, tracking=None):
        g = I.active(fr)
        st["wval"] = ite(g, value, st["wval"])
        st["written"] = z3.Or(st["written"], g)

    def asbool(I, fr, v):  # ExpressionUtility.asbool restricted to Optional[int]: None and 0 are False
        return z3.And(z3.Not(v.isnone), v.val != 0)

    handlers = {
        "self.default_match": lambda I, fr: AND,
        "self._test_friendly_line_matches": lambda I, fr, m: m,
        "self.matcher.set_variable": set_variable,
        "ExpressionUtility.asbool": asbool,
        "__ignore__": ("self.assign", "self.matcher.csvpath.logger"),
    }
    I = Interp(Equality, handlers, st)
    args = dict(q)
    args.update(noqualifiers=z3.BoolVal(False), count=z3.BoolVal(False), new_value=y, name="x", tracking=None, current_value=cur, line_matches=lm)
    ret = I.call_method("_do_assignment_new_impl", [], dict(name="x", tracking=None, args=args), z3.BoolVal(True))
    return AND, q, cur, y, lm, ret, st, I


def _e3_oracle(AND, q, cur, y, lm):
    """docs/assignment.md as z3 terms (the same table as assign_oracle above)"""
    import z3

    dm = AND
    rest = lm == dm
    same = z3.Or(z3.And(cur.isnone, y.isnone), z3.And(z3.Not(cur.isnone), z3.Not(y.isnone), cur.val == y.val))
    ty = z3.And(z3.Not(y.isnone), y.val != 0)
    gate = z3.Or(z3.Not(q["onmatch"]), rest)
    lo = z3.Or(q["latch"], q["onchange"])
    blocked_by_latch = z3.And(q["latch"], z3.Not(cur.isnone), z3.Not(same))
    attempt = z3.And(gate, z3.Not(z3.And(lo, same)), z3.Not(blocked_by_latch))
    blk = z3.Or(
        z3.And(q["notnone"], y.isnone),
        z3.And(q["increase"], z3.Or(y.isnone, z3.And(z3.Not(cur.isnone), z3.Not(y.val > cur.val)))),
        z3.And(z3.Not(z3.And(q["increase"], z3.Or(y.isnone, z3.And(z3.Not(cur.isnone), z3.Not(y.val > cur.val))))),
               q["decrease"], z3.Or(y.isnone, z3.And(z3.Not(cur.isnone), z3.Not(y.val < cur.val)))),
    )
    written = z3.And(attempt, z3.Not(blk))
    negative = z3.Or(z3.Not(gate), z3.And(gate, lo, same, q["onchange"]), z3.And(attempt, blk))
    vote = z3.If(negative, z3.Not(dm), dm)
    vote = z3.If(z3.And(q["asbool"], vote == dm), ty, vote)
    vote = z3.If(q["nocontrib"], dm, vote)
    return vote, written


_BUILT = None


def _real_kernel(quals, cur, y, lm, AND):
    """the real method on concrete inputs -> (returned vote, written?, value)"""
    global _BUILT
    if _BUILT is None:
        _BUILT = build(TEXT, [False] * 8)
    p, pr, eq = _BUILT
    p.matcher._AND = AND
    p.variables.clear()
    if cur is not None:
        p.variables["x"] = cur
    args = dict(zip(QUALS, quals))
    args.update(noqualifiers=False, count=False, new_value=y, name="x", tracking=None, current_value=cur, line_matches=lm)
    calls = []
    orig = type(p.matcher).set_variable

    def rec(name, *, value=None, tracking=None):
        calls.append(value)
        return orig(p.matcher, name, value=value, tracking=tracking)

    p.matcher.set_variable = rec
    try:
        ret = eq._do_assignment_new_impl(name="x", tracking=None, args=args)
    finally:
        del p.matcher.set_variable
    return (ret, len(calls) > 0, calls[-1] if calls else None)


@ob(
    "C14",
    "O1a-kernel-translation",
    kind="query",
    bound="the source of Equality._do_assignment_new_impl, _latch_and_onchange and _set_variable_if is read with inspect and "
    "translated statement by statement into z3 terms (if-then-else merging); ONE query compares the vote and the write with the "
    "table of docs/assignment.md for all 2^8 qualifier subsets x both logic modes x rest-of-line x ALL Optional[int] values of the "
    "current and the new value (unbounded mathematical ints); a second query shows no TypeError can be raised; the translator is "
    "validated against the real method on 2000 random concrete inputs",
    outside="string-valued operands; Qualified.line_matches itself (covered by O2-step); increase together with decrease",
    encodes=["csvpath/matching/productions/equality.py:Equality._do_assignment_new_impl/_latch_and_onchange/_set_variable_if (AST -> z3)"],
    tiers={"quick": {"timeout": 300}},
)
def kernel_translation(tier, cfg, shard, carve):
    import random
    import time
    import z3

    t0 = time.time()
    try:
        AND, q, cur, y, lm, ret, st, I = _e3_build()
    except NotImplementedError as e:
        return {"verdict": "CANNOT_CONFIRM", "message": "unmodelled construct: " + str(e)[:300], "cex": None, "z3_queries": 0, "z3_s": 0, "paths": 0}
    t_tr = time.time() - t0
    ov, ow = _e3_oracle(AND, q, cur, y, lm)
    dom = z3.Not(z3.And(q["increase"], q["decrease"]))
    # translator validation on concrete inputs (not the deciding step)
    rnd = random.Random(int(os.environ.get("VERIF_SEED", "0") or 0))
    agreed = 0
    for _ in range(2000):
        vals = [rnd.random() < 0.5 for _ in QUALS]
        c = rnd.choice([None, 0, 1, 2, -1, 5])
        yy = rnd.choice([None, 0, 1, 2, -1, 5])
        l = rnd.random() < 0.5
        A = rnd.random() < 0.5
        real = _real_kernel(vals, c, yy, l, A)
        sub = [(AND, z3.BoolVal(A)), (lm, z3.BoolVal(l)), (cur.isnone, z3.BoolVal(c is None)), (cur.val, z3.IntVal(c or 0)),
               (y.isnone, z3.BoolVal(yy is None)), (y.val, z3.IntVal(yy or 0))] + [(q[k], z3.BoolVal(v)) for k, v in zip(QUALS, vals)]
        if z3.is_true(z3.simplify(z3.substitute(I.errors, *sub))):
            continue  # the real method raises TypeError here (e.g. ordering None): nothing to compare
        enc_ret = z3.is_true(z3.simplify(z3.substitute(ret, *sub)))
        enc_w = z3.is_true(z3.simplify(z3.substitute(st["written"], *sub)))
        if enc_ret != real[0] or enc_w != real[1]:
            return {"verdict": "CANNOT_CONFIRM", "message": f"translator disagrees with the real method on {dict(zip(QUALS, vals))} cur={c} y={yy} lm={l} AND={A}: "
                    f"encoding ({enc_ret},{enc_w}) real {real}", "cex": None, "z3_queries": 0, "z3_s": 0, "paths": 0}
        agreed += 1
    zs = 0.0
    s0 = z3.Solver()
    s0.add(dom, z3.Not(I.errors))
    if str(s0.check()) != "sat":
        return {"verdict": "VACUOUS", "message": "domain unsatisfiable", "cex": None, "z3_queries": 1, "z3_s": 0, "paths": 0}
    s = z3.Solver()
    s.set("timeout", 240000)
    s.add(dom, z3.Not(I.errors))
    wv = st["wval"]
    s.add(z3.Or(ret != ov, st["written"] != ow, z3.And(ow, z3.Not(z3.And(wv.isnone == y.isnone, z3.Or(y.isnone, wv.val == y.val))))))
    t = time.time()
    r = s.check()
    zs += time.time() - t
    out = {"z3_queries": 3, "paths": 1, "engine": "AST->z3 translation + z3", "witness": {"translated_in_s": round(t_tr, 3), "validated_on_random_inputs": agreed},
           "extra": {"translator_validation_inputs": agreed, "translate_s": round(t_tr, 3)}}
    if str(r) == "sat":
        m = s.model()

        def ov_(o):
            return None if z3.is_true(m.eval(o.isnone, model_completion=True)) else m.eval(o.val, model_completion=True).as_long()

        cex = {"quals": [z3.is_true(m.eval(q[k], model_completion=True)) for k in QUALS], "cur": ov_(cur), "y": ov_(y),
               "lm": z3.is_true(m.eval(lm, model_completion=True)), "AND": z3.is_true(m.eval(AND, model_completion=True))}
        out.update({"verdict": "SAT", "message": "kernel differs from docs/assignment.md", "cex": cex, "z3_s": round(zs, 3)})
        return out
    if str(r) != "unsat":
        out.update({"verdict": "CANNOT_CONFIRM", "message": f"solver: {r}", "cex": None, "z3_s": round(zs, 3)})
        return out
    s2 = z3.Solver()
    s2.add(dom, I.errors, z3.Not(cur.isnone), z3.Not(y.isnone))
    t = time.time()
    r2 = s2.check()
    zs += time.time() - t
    if str(r2) != "unsat":
        out.update({"verdict": "CANNOT_CONFIRM", "message": f"the kernel may raise on int operands: {r2}", "cex": None, "z3_s": round(zs, 3)})
        return out
    out.update({"verdict": "UNSAT", "message": "", "cex": None, "z3_s": round(zs, 3)})
    return out


def replay_kernel_translation(args):
    quals = args["quals"]
    A = args["AND"]
    real = _real_kernel(quals, args["cur"], args["y"], args["lm"], A)
    rest = args["lm"] == A
    new, vote = assign_oracle(*quals, args["cur"], args["y"], rest)
    # assign_oracle's vote is 'positive?'; the method returns default_match (= AND) for positive, its negation for negative,
    # except that asbool returns the plain truth of y
    if quals[QUALS.index("nocontrib")]:
        want_ret = A
    elif quals[QUALS.index("asbool")]:
        base_new, base_vote = assign_oracle(*[qv if k != "asbool" else False for k, qv in zip(QUALS, quals)], args["cur"], args["y"], rest)
        want_ret = asbool_of(args["y"]) if base_vote else (not A)
    else:
        want_ret = A if vote else (not A)
    want_written = new != args["cur"] or (real[1] and real[2] == args["cur"])
    bad = real[0] != want_ret or (real[1] and real[2] != new) or (not real[1] and new != args["cur"])
    return (bad, f"real (vote, written, value)={real}; documented vote={want_ret}, value afterwards={new}")


# ------------------------------------------------------------------ O3 'true' / 'false' as assigned values
YS = ["true", "false", "False", "TRUE", "fAlSe", "x"]


def asbool_str(y):
    if y is None:
        return False
    return y.strip().lower() != "false"


def string_oracle(onmatch, latch, onchange, notnone, asbool, nocontrib, cur, yi, m):
    y = None if yi < 0 else YS[yi]
    c = None if cur < 0 else YS[cur]
    new, vote = assign_oracle(onmatch, latch, onchange, False, False, notnone, False, nocontrib, c, y, m)
    if asbool and not nocontrib:
        base_new, base_vote = assign_oracle(onmatch, latch, onchange, False, False, notnone, False, False, c, y, m)
        if base_vote:
            vote = asbool_str(y)
    return (new, vote and m)


@ob(
    "C14",
    "O3-true-false-strings",
    pre=["-1 <= yi < 6 and -1 <= cur < 6"],
    post="_ == string_oracle(onmatch, latch, onchange, notnone, asbool, nocontrib, cur, yi, m)",
    bound="as O2-step with the assigned value and the current value picked by symbolic indexes from 'true', 'false', 'False', 'TRUE', "
    "'fAlSe', 'x' or absent (increase/decrease off, as in the property's quantifier): asbool reads 'false' in any spelling as False "
    "and every other text as True",
    outside="other texts",
    encodes=ENC + ["csvpath/matching/util/expression_utility.py:ExpressionUtility.asbool"],
    tiers={"quick": {"timeout": 900, "shards": product(onmatch=[False, True], asbool=[False, True], latch=[False, True], notnone=[False, True])}},
)
def string_step(onmatch: bool, latch: bool, onchange: bool, notnone: bool, asbool: bool, nocontrib: bool, cur: int, yi: int, m: bool) -> Tuple[Optional[str], bool]:
    p, pr, eq = build(TEXT, [onmatch, latch, onchange, False, False, notnone, asbool, nocontrib])
    if cur >= 0:
        p.variables["x"] = YS[cur]
    if yi >= 0:
        p.variables["y"] = YS[yi]
    p.variables["m"] = m
    p.track_line(["h"])
    ret = p._consider_line(["h"])
    return (p.variables.get("x"), ret)


# ------------------------------------------------------------------ O4 the assignment between other onmatch components
TEXT3 = '$SYM[*][ @a.onmatch.nocontrib = 1  @x = @y  push.onmatch("p", 1)  @m.asbool ]'


@ob(
    "C14",
    "O4-among-onmatch-components",
    pre=["cur is None or {LO} <= cur <= {HI}", "y is None or {LO} <= y <= {HI}", "not (increase and decrease)"],
    post="_ == step_oracle(True, latch, onchange, increase, decrease, notnone, asbool, nocontrib, cur, y, m)",
    bound="as O2-step, with the assignment placed between two other onmatch components (a neutral onmatch assignment before it, an "
    "onmatch push after it) so that several look-aheads nest; x itself always carries onmatch",
    outside="more than three onmatch components",
    encodes=ENC,
    tiers={"quick": {"timeout": 900, "K": {"LO": -1, "HI": 2}, "shards": product(latch=[False, True], onchange=[False, True], asbool=[False, True])}},
)
def among_onmatch(latch: bool, onchange: bool, increase: bool, decrease: bool, notnone: bool, asbool: bool, nocontrib: bool,
                  cur: Optional[int], y: Optional[int], m: bool) -> Tuple[Optional[int], bool]:
    p, pr, eq = build(TEXT3, [True, latch, onchange, increase, decrease, notnone, asbool, nocontrib], index=1)
    if cur is not None:
        p.variables["x"] = cur
    if y is not None:
        p.variables["y"] = y
    p.variables["m"] = m
    p.track_line(["h"])
    ret = p._consider_line(["h"])
    return (p.variables.get("x"), ret)
