"""C14 - assignment qualifiers decide the vote and the write per docs/assignment.md.

O2 (E1): one real CsvPath._consider_line on '[ @x = @y  @m.asbool ]'.  The qualifier list of
the left-hand Variable is set from symbolic bools (the list is exactly what the parser builds
for '@x.<q1>.<q2>... = @y', checked natively for the parser in O0), so Equality._do_assignment,
_do_assignment_new_impl, _latch_and_onchange, _set_variable_if, Qualified.line_matches
(onmatch look-ahead) and the match-count effects are the real ones.  The pre-state of x is
symbolic, so one step covers value sequences of any length (inductive step).
"""
from typing import Optional, Tuple

from crosshair.tracers import NoTracing

from vp.kit import fresh
from vp.ob import ob, product
from csvpath.matching.matcher import Matcher

QUALS = ["onmatch", "latch", "onchange", "increase", "decrease", "notnone", "asbool", "nocontrib"]


def asbool_of(y) -> bool:
    """docs: like bool(x) plus "true"/"false"; ints and None here"""
    if y is None:
        return False
    return y != 0


def assign_oracle(onmatch, latch, onchange, increase, decrease, notnone, asbool, nocontrib, cur, y, rest):
    """-> (value of x afterwards, vote of the assignment).  Written from docs/assignment.md:
    onmatch gates everything; notnone, then increase/decrease, then latch/onchange decide the
    write and a negative vote when they block (latch never votes negative); asbool replaces a
    positive vote by the truth of y; nocontrib makes the vote neutral."""
    new = cur
    vote = True
    if onmatch and not rest:
        vote = False
    else:
        blocked_by_latch = latch and cur is not None and cur != y
        same = cur == y
        if (latch or onchange) and same:
            # nothing to write; onchange votes negative, latch alone stays positive
            if onchange:
                vote = False
        elif blocked_by_latch:
            pass  # no write, positive vote
        else:
            if notnone and y is None:
                vote = False
            elif increase and (y is None or (cur is not None and not y > cur)):
                vote = False
            elif decrease and (y is None or (cur is not None and not y < cur)):
                vote = False
            else:
                new = y
    if asbool and vote:
        vote = asbool_of(y)
    if nocontrib:
        vote = True
    return (new, vote)


def step_oracle(onmatch, latch, onchange, increase, decrease, notnone, asbool, nocontrib, cur, y, m):
    new, vote = assign_oracle(onmatch, latch, onchange, increase, decrease, notnone, asbool, nocontrib, cur, y, m)
    return (new, vote and m)


ENC = [
    "csvpath/matching/productions/equality.py:Equality.matches/_do_assignment/_do_assignment_new_impl/_latch_and_onchange/_set_variable_if",
    "csvpath/matching/productions/qualified.py:Qualified.line_matches/has_qualifier/onmatch..nocontrib properties",
    "csvpath/matching/productions/variable.py:Variable.to_value/matches",
    "csvpath/matching/matcher.py:Matcher.matches/get_variable/set_variable",
    "csvpath/csvpath.py:CsvPath._consider_line/set_variable/get_variable",
]

TEXT = '$SYM[*][ @x = @y  @m.asbool ]'


def build(text, quals, tracking=None):
    p, pr = fresh(text, [["h"], ["a"]])
    with NoTracing():
        p.matcher = Matcher(csvpath=p, data=p.match, line=["h"], headers=p.headers, myid="verif")
        p.matcher.AND = p.AND
        eq = p.matcher.expressions[0][0].children[0]
        assert eq.op == "=" and eq.left.name == "x", eq
    qs = []
    if tracking:
        qs.append(tracking)
    for q, on in zip(QUALS, quals):
        if on:
            qs.append(q)
    eq.left.qualifiers = qs
    return p, pr, eq


@ob(
    "C14",
    "O2-step",
    pre=["cur is None or {LO} <= cur <= {HI}", "y is None or {LO} <= y <= {HI}",
         "not (increase and decrease)"],
    post="_ == step_oracle(onmatch, latch, onchange, increase, decrease, notnone, asbool, nocontrib, cur, y, m)",
    bound="all qualifier subsets (8 symbolic bools; increase+decrease together excluded as contradictory), pre-state cur and new "
    "value y symbolic Optional[int] LO..HI, rest-of-line m symbolic; one real _consider_line; observed: x afterwards and whether "
    "the line matched (= vote and m)",
    outside="string-valued y; the vote when the rest of the line does not match (not observable from the line result)",
    encodes=ENC,
    findings=[],
    tiers={
        "quick": {"timeout": 900, "K": {"LO": -2, "HI": 3}, "shards": product(onmatch=[False, True], latch=[False, True], onchange=[False, True], asbool=[False, True])},
        "thorough": {"timeout": 3000, "K": {"LO": -2, "HI": 11}, "shards": product(onmatch=[False, True], latch=[False, True], onchange=[False, True], asbool=[False, True], notnone=[False, True])},
    },
)
def assign_step(onmatch: bool, latch: bool, onchange: bool, increase: bool, decrease: bool, notnone: bool, asbool: bool, nocontrib: bool,
                cur: Optional[int], y: Optional[int], m: bool) -> Tuple[Optional[int], bool]:
    p, pr, eq = build(TEXT, [onmatch, latch, onchange, increase, decrease, notnone, asbool, nocontrib])
    if cur is not None:
        p.variables["x"] = cur
    if y is not None:
        p.variables["y"] = y
    p.variables["m"] = m
    p.track_line(["h"])
    ret = p._consider_line(["h"])
    return (p.variables.get("x"), ret)


def parser_quals_ok() -> bool:
    """O0: for all 256 subsets the real parser builds exactly the qualifier list the harness sets."""
    import itertools
    from csvpath import CsvPath

    for bits in itertools.product([False, True], repeat=8):
        qs = [q for q, on in zip(QUALS, bits) if on]
        text = "$SYM[*][ @x%s = @y  @m.asbool ]" % "".join("." + q for q in qs)
        p, pr = fresh(text, [["h"], ["a"]])
        m = Matcher(csvpath=p, data=p.match, line=["h"], headers=p.headers, myid="verif")
        eq = m.expressions[0][0].children[0]
        if list(eq.left.qualifiers) != qs or eq.left.name != "x":
            return False
    return True
