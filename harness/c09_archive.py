"""C09 - the archived results of a run say what the run did.

A real CsvPaths runs a group of 2 members over a 5-record file (quoted delimiter, embedded
newline) in a scratch directory; the line where member m0 stops, the line where it fails, the
match threshold and the line where m1 hits an error are symbolic ints supplied through external
functions (= every way a run ends: stop, fail, error, exhaustion).  After the run returns, the
archive is read back natively and compared with the in-memory results, with the bytes on disk and
with the lines an independent fold says each member collected / left unmatched.
"""
import csv
import hashlib
import io
import os
from typing import List

from crosshair.tracers import NoTracing

from vp import kit, kitpaths
from vp.ob import ob, product

kit.register("symks", "symkf", "symt", "symke")

MEMBERS = [
    '~id:m0~ $[*][ stop(symks() == line_number()) symkf.nocontrib() == line_number() -> fail() gt(line_number(), symt()) '
    'print("m0 at $.csvpath.line_number") print("audit $.csvpath.line_number", "audit") @v = line_number() ]',
    '~id:m1 unmatched-mode:keep~ $[*][ push("s", line_number()) gt(line_number(), symt()) symke.nocontrib() == line_number() -> mod(1, 0) ]',
    # a member whose scan ends before the file does, and a member that is switched off
    '~id:m2~ $[1-2][ yes() ]',
    '~id:m3 run-mode: no-run~ $[*][ yes() print("m3 ran") ]',
]
ND = kitpaths.NDATA
RECORDS = [r for r in csv.reader(io.StringIO(kitpaths.DATA))]

COLLECTING = ("collect_paths", "collect_by_line")


def _run(cs, method):
    m = getattr(cs, method)
    if method.startswith("next"):
        for _ in m(filename="data", pathsname="g"):
            pass
    else:
        m(filename="data", pathsname="g")


def expected_lines(ks, t, ke):
    """(m0 collected, m1 collected, m1 unmatched) as record indexes"""
    m0 = []
    for i in range(ND):
        if i == ks:
            break  # stop() is the first component: line ks is not returned
        if i > t:
            m0.append(i)
    m1, um1 = [], []
    for i in range(ND):
        if i > t and i != ke:
            m1.append(i)
        else:
            um1.append(i)
    return m0, m1, um1


def _read(path):
    with open(path, "rb") as f:
        return f.read()


def _csv(path):
    if not os.path.exists(path):
        return []
    with open(path, newline="", encoding="utf-8") as f:
        return [r for r in csv.reader(f)]


def _check_member(run_dir, r, collecting, want_lines, want_unmatched, out):
    import json

    ident = r.csvpath.identity
    d = os.path.join(run_dir, ident)
    if not os.path.isdir(d):
        out.append(f"{ident}: no member directory")
        return
    for fn in ("meta.json", "vars.json", "errors.json", "manifest.json"):
        if not os.path.exists(os.path.join(d, fn)):
            out.append(f"{ident}: {fn} missing")
            return
    vs = json.loads(_read(os.path.join(d, "vars.json")))
    if vs != json.loads(json.dumps(r.csvpath.variables)):
        out.append(f"{ident}: vars.json != final variables")
    es = json.loads(_read(os.path.join(d, "errors.json")))
    if [e.get("line_count") for e in es] != [e.line_count for e in r.errors]:
        out.append(f"{ident}: errors.json != collected errors")
    # every printer that was printed to (default and named ones), section by section
    pr = {k: list(v) for k, v in (r.get_printouts() or {}).items() if v}
    ptxt = _read(os.path.join(d, "printouts.txt")).decode().splitlines() if os.path.exists(os.path.join(d, "printouts.txt")) else []
    sections, cur = {}, None
    for x in ptxt:
        if x.startswith("---- PRINTOUT: "):
            cur = x[len("---- PRINTOUT: "):]
            sections[cur] = []
        elif cur is not None:
            sections[cur].append(x)
    if {k: v for k, v in sections.items() if v} != pr:
        out.append(f"{ident}: printouts.txt {sections} != printouts {pr}")
    if collecting:
        if _csv(os.path.join(d, "data.csv")) != [RECORDS[i] for i in want_lines]:
            out.append(f"{ident}: data.csv != collected lines")
        if want_unmatched is not None and _csv(os.path.join(d, "unmatched.csv")) != [RECORDS[i] for i in want_unmatched]:
            out.append(f"{ident}: unmatched.csv != unmatched lines")
    meta = json.loads(_read(os.path.join(d, "meta.json")))
    rt = meta.get("runtime_data") or {}
    cp = r.csvpath
    for key, val in (("count_matches", cp.match_count), ("count_scans", cp.scan_count), ("line_number", cp.line_monitor.physical_line_number),
                     ("count_lines", cp.line_monitor.data_line_count), ("valid", cp.is_valid), ("stopped", cp.stopped), ("identity", ident), ("headers", list(cp.headers))):
        if rt.get(key) != val:
            out.append(f"{ident}: meta.json runtime_data[{key}] is {rt.get(key)!r}, the run ended with {val!r}")
    if meta.get("identity") != ident or (meta.get("metadata") or {}).get("id") != ident:
        out.append(f"{ident}: meta.json identity/metadata do not name the member")
    if collecting and want_unmatched is not None and rt.get("lines_collected") != len(want_lines):
        out.append(f"{ident}: meta.json lines_collected is {rt.get('lines_collected')}, collected {len(want_lines)}")
    man = json.loads(_read(os.path.join(d, "manifest.json")))
    if man.get("instance_identity") != ident or man.get("instance_home") != d or man.get("run_home") != run_dir:
        out.append(f"{ident}: manifest instance_identity/instance_home/run_home wrong")
    if man.get("file_count") != len([f for f in os.listdir(d) if f != "manifest.json"]):
        out.append(f"{ident}: manifest file_count {man.get('file_count')} != files on disk")
    if man.get("valid") != r.csvpath.is_valid:
        out.append(f"{ident}: manifest valid != is_valid")
    if man.get("completed") != r.csvpath.completed:
        out.append(f"{ident}: manifest completed != completed")
    fps = man.get("file_fingerprints") or {}
    on_disk = sorted(f for f in os.listdir(d) if f != "manifest.json")
    if sorted(fps) != on_disk:
        out.append(f"{ident}: fingerprinted files {sorted(fps)} != files on disk {on_disk}")
    for fn, h in fps.items():
        p = os.path.join(d, fn)
        if os.path.exists(p) and hashlib.sha256(_read(p)).hexdigest() != h:
            out.append(f"{ident}: fingerprint of {fn} != sha256 of the bytes on disk")


ENC = ["csvpath/managers/results/results_manager.py:ResultsManager.start_run/add_named_result/save/complete_run",
       "csvpath/managers/results/result_serializer.py:ResultSerializer.save_result/_save",
       "csvpath/managers/results/result_registrar.py:ResultRegistrar.register_complete/file_fingerprints/completed",
       "csvpath/managers/results/results_registrar.py:ResultsRegistrar.register_complete/all_valid/all_completed/error_count",
       "csvpath/util/line_spooler.py:CsvLineSpooler.append/close", "csvpath/csvpaths.py:CsvPaths.<run methods>"]


@ob(
    "C09",
    "O1-archive-truthful",
    pre=["{LO} <= ks <= {HI} and {LO} <= kf <= {FHI} and {LO} <= t <= {HI} and {LO} <= ke <= {HI}"],
    post="_ == ''",
    bound="group of 4 members (one with unmatched-mode keep, one with a scan ending before the file, one with run-mode no-run) over a 5-record file with quoted delimiter and embedded newline; stop "
    "line ks, fail line kf, match threshold t, error line ke symbolic LO..HI (shards fix some of them); run method per shard; optionally (shard) an earlier run of the same group by another instance in the same clock second; read "
    "back: run manifest status/all_valid/all_completed/error_count, member meta/vars/errors/manifest, vars.json = variables, "
    "errors.json = errors, printouts.txt = printouts of every printer printed to (default and a named one), data.csv/unmatched.csv parse to the expected lines, fingerprints = sha256 of "
    "the bytes on disk and cover every file",
    outside="symbolic cell text and variable values through json/csv (C boundary): the data side is this one fixture; groups of "
    "more than 2; the symbolic ints are realised when the archive is written (solver-driven walk over the box)",
    encodes=ENC,
    tiers={"quick": {"timeout": 1800, "K": {"LO": -1, "HI": 5, "FHI": 2}, "shards": product(method=["collect_paths", "collect_by_line", "fast_forward_paths", "next_by_line"], t=[0], ke=[-1, 2])
                     + product(method=["collect_paths", "collect_by_line"], t=[0], ke=[2], kf=[1], prior=[True])},
           "thorough": {"timeout": 6000, "K": {"LO": -1, "HI": 5, "FHI": 5},
                        "shards": product(method=["collect_paths", "fast_forward_paths", "next_paths", "collect_by_line", "fast_forward_by_line", "next_by_line"], t=[-1, 1], ke=[-1, 2])
                        + product(method=["collect_paths", "next_paths", "collect_by_line"], t=[0], ke=[2], prior=[True])}},
)
def archive_truthful(method: str, ks: int, kf: int, t: int, ke: int, prior: bool = False) -> str:
    import datetime
    import json
    import csvpath.csvpaths as _cps

    class _Clock:
        """a frozen clock: an earlier run of the same group (prior) starts in the same second"""

        @classmethod
        def now(cls, tz=None):
            return datetime.datetime(2031, 5, 6, 13, 0, 0, tzinfo=datetime.timezone.utc)

    kit.HOLD.update(symks=ks, symkf=kf, symt=t, symke=ke)
    saved = _cps.datetime
    with NoTracing():
        _cps.datetime = _Clock
        root, cs = kitpaths.env({"g": MEMBERS}, policy="collect, print")
    try:
        earlier = {}
        if prior:
            with NoTracing():
                cs0 = kitpaths.new_instance()
            _run(cs0, method)
            with NoTracing():
                earlier = kitpaths.tree_digest("archive/g")
        _run(cs, method)
    finally:
        with NoTracing():
            _cps.datetime = saved
    out = []
    m0, m1, um1 = expected_lines(ks, t, ke)  # traced: realises the symbolic ints along this path
    with NoTracing():
        runs = sorted(d for d in os.listdir("archive/g") if os.path.isdir(os.path.join("archive/g", d)))
        if len(runs) != (2 if prior else 1):
            out.append(f"{len(runs)} run directories")
        results = cs.results_manager.get_named_results("g")
        run_dir = results[0].run_dir if results else os.path.join("archive/g", runs[-1])
        now = kitpaths.tree_digest("archive/g")
        for f, h in earlier.items():
            if f.count(os.sep) >= 1 and now.get(f) != h:
                out.append(f"the earlier run's file {f} changed")
                break
        man = json.loads(_read(os.path.join(run_dir, "manifest.json")))
        if man.get("status") != "complete":
            out.append("run manifest status is not complete")
        if man.get("all_valid") != all(r.csvpath.is_valid for r in results):
            out.append("all_valid != conjunction of members")
        if man.get("all_completed") != all(r.csvpath.completed for r in results):
            out.append("all_completed != conjunction of members")
        if man.get("error_count") != sum(len(r.errors) for r in results):
            out.append("error_count != sum of members' errors")
        collecting = method in COLLECTING
        if len(results) != 4:
            out.append(f"{len(results)} results")
        else:
            _check_member(run_dir, results[2], collecting, [1, 2], None, out)
            _check_member(run_dir, results[3], collecting, [], None, out)
            _check_member(run_dir, results[0], collecting, m0, None, out)
            # breadth-first runs do not keep unmatched lines (next_by_line drives _consider_line itself): nothing to compare there
            _check_member(run_dir, results[1], collecting, m1, um1 if method == "collect_paths" else None, out)
        kitpaths.cleanup(root)
    return "; ".join(out)


# ------------------------------------------------------------------ O2 a collected blank line
DATA_BLANK = "h1,h2\na,b\n\nc,d\ne,f\n"
RECORDS_BLANK = [["h1", "h2"], ["a", "b"], [], ["c", "d"], ["e", "f"]]


@ob(
    "C09",
    "O2-blank-line-collected",
    pre=["{LO} <= t <= {HI}"],
    post="_ == ''",
    bound="one member over a 5-line file whose third line is blank, CsvPaths(skip_blank_lines=False), collect_by_line (the breadth-first "
    "methods hand a blank line to the caller as []); match threshold t symbolic LO..HI: the lines handed to the caller, the fold and "
    "data.csv read back agree (the blank line included when collected)",
    outside="the serial methods (they reject an empty line before it can be collected); several blank lines",
    encodes=["csvpath/util/line_spooler.py:CsvLineSpooler.append", "csvpath/csvpaths.py:CsvPaths.collect_by_line/next_by_line", "csvpath/managers/results/result.py:Result.append"],
    tiers={"quick": {"timeout": 900, "K": {"LO": -1, "HI": 5}}},
)
def blank_line_collected(t: int) -> str:
    kit.HOLD.update(symks=-1, symkf=-1, symt=t, symke=-1)
    want = [r for i, r in enumerate(RECORDS_BLANK) if i > t]
    with NoTracing():
        root, cs = kitpaths.env({"g": ['~id:m~ $[*][ gt(line_number(), symt()) ]']}, policy="collect, print", data=DATA_BLANK)
        cs.skip_blank_lines = False
    got = [list(x) for x in cs.collect_by_line(filename="data", pathsname="g")]
    out = []
    with NoTracing():
        if got != want:
            out.append(f"the caller was handed {got}, expected {want}")
        run = os.path.join("archive/g", sorted(os.listdir("archive/g"))[0])
        back = _csv(os.path.join(run, "m", "data.csv"))
        if back != want:
            out.append(f"data.csv parses to {back}, the member collected {want}")
        kitpaths.cleanup(root)
    return "; ".join(out)
