"""C07 - collect(), next() and fast_forward() are the same run.

Relational harness: three fresh real CsvPath objects, same template, same symbolic
variables and same stub file; collect() vs next() vs fast_forward() must give equal lines
and equal (variables, counters, validity, stopped, errors, printouts).
collect(nexts=n): first n lines of collect() and no side effect of a later line.
"""
from typing import List, Tuple

from vp.kit import fresh
from vp.ob import ob, product

NREC = 6

TPL = {
    "stop": '$SYM[*][ push("s", line_number()) stop(@k == line_number()) push("t", line_number()) ]',
    "skip": '$SYM[*][ push("s", line_number()) skip(@k == line_number()) push("t", line_number()) ]',
    "advance": '$SYM[*][ push("s", line_number()) @k.nocontrib == line_number() -> advance(@n) @c = count() ]',
    "last": '$SYM[*][ push("s", line_number()) gt(line_number(), @k) last.nocontrib() -> @z = count_lines() ]',
    "print": '$SYM[*][ gt(line_number(), @k) print("at $.csvpath.line_number seen $.csvpath.count_matches") ]',
    "fail": '$SYM[*][ push("s", line_number()) @k.nocontrib == line_number() -> fail() @v = valid() ]',
    "error": '$SYM[*][ push("s", line_number()) @k.nocontrib == line_number() -> mod(1, 0) push("t", line_number()) ]',
    # mode settings in the comment
    "no-run": '~ run-mode: no-run ~ $SYM[*][ push("s", line_number()) gt(line_number(), @k) print("p $.csvpath.line_number") ]',
    "no-matches": '~ return-mode: no-matches ~ $SYM[*][ push("s", line_number()) gt(line_number(), @k) push.onmatch("m", line_number()) ]',
    # unmatched lines kept, the stop lands on a line that is not returned
    "keep-stop": '~ unmatched-mode: keep ~ $SYM[*][ push("s", line_number()) stop(@k == line_number()) gt(line_number(), @n) ]',
    # the csvpath projects the line with collect(): the yielded lists must stay what they were when yielded
    "collect-fn": '$SYM[*][ collect(0) gt(line_number(), @k) ]',
    "onmatch-reject": '$SYM[*][ push("s", line_number()) gt(line_number(), @k) skip.onmatch(@n == line_number()) push("t", line_number()) ]',
}


def _state(p, pr):
    vs = {}
    for k, v in p.variables.items():
        vs[k] = list(v) if isinstance(v, (list, tuple)) else v
    errs = [(e.line_count, e.match_count, e.scan_count) for e in (p.errors or [])]
    um = None if p.unmatched is None else [list(x) for x in p.unmatched]
    return (vs, p.scan_count, p.match_count, p.is_valid, p.stopped, errs, list(pr.lines), p.line_monitor.physical_line_number)


def _recs(b1, b3, odd=False):
    blanks = [False, b1, False, b3, False, False]
    recs = [[] if blanks[i] else [str(i), "x"] for i in range(NREC)]
    if odd:
        recs[4] = [" "]  # a record of one cell holding only a blank: not a blank record, it is scanned and may match
    return recs


@ob(
    "C07",
    "O1-three-ways",
    pre=["{KLO} <= k <= {KHI}", "0 <= n <= {NHI}"],
    post="_",
    bound="6 stub records (2 symbolic blank flags; in the 'odd' shards one record is a single cell holding a blank), firing line k KLO..KHI and advance count n 0..NHI symbolic; templates "
    "with stop, skip, advance, last, print, fail, error-provoking component; compared: returned lines and the tuple "
    "(variables, scan_count, match_count, is_valid, stopped, errors, printouts, last line number read)",
    outside="more than 6 records; other templates",
    encodes=["csvpath/csvpath.py:CsvPath.collect/next/fast_forward/_consider_line/finalize", "csvpath/util/line_spooler.py:ListLineSpooler.append"],
    tiers={
        "quick": {"timeout": 900, "K": {"KLO": -1, "KHI": 6, "NHI": 3}, "shards": product(tpl=[t for t in TPL if t not in ("advance", "onmatch-reject", "keep-stop")], n=[0], b1=[False]) + product(tpl=["advance", "onmatch-reject", "keep-stop"], b1=[False])
                  + product(tpl=["last", "no-matches"], n=[0], b1=[False], odd=[True])},
        "thorough": {"timeout": 3000, "K": {"KLO": -2, "KHI": 7, "NHI": 6}, "shards": product(tpl=[t for t in TPL if t not in ("advance", "onmatch-reject", "keep-stop")], n=[0]) + product(tpl=["advance", "onmatch-reject", "keep-stop"]) + product(tpl=["last", "no-matches", "stop"], n=[0], odd=[True])},
    },
)
def three_ways(tpl: str, k: int, n: int, b1: bool, b3: bool, odd: bool = False) -> bool:
    recs = _recs(b1, b3, odd)
    p1, pr1 = fresh(TPL[tpl], recs)
    p1.variables["k"] = k
    p1.variables["n"] = n
    l1 = p1.collect()
    p2, pr2 = fresh(TPL[tpl], recs)
    p2.variables["k"] = k
    p2.variables["n"] = n
    l2 = list(p2.next())  # the yielded lists are kept as they are and compared after the run
    p3, pr3 = fresh(TPL[tpl], recs)
    p3.variables["k"] = k
    p3.variables["n"] = n
    p3.fast_forward()
    s1, s2, s3 = _state(p1, pr1), _state(p2, pr2), _state(p3, pr3)
    return l1 == l2 and s1 == s2 and s2 == s3


NEXTS_TPL = {
    "plain": '$SYM[*][ push("s", line_number()) gt(line_number(), @k) push.onmatch("m", line_number()) ]',
    "no-matches": '~ return-mode: no-matches ~ $SYM[*][ push("s", line_number()) gt(line_number(), @k) push.onmatch("m", line_number()) ]',
    "onmatch-reject": '$SYM[*][ push("s", line_number()) gt(line_number(), @k) push.onmatch("m", line_number()) skip.onmatch(@j == line_number()) ]',
}


def nexts_oracle(mode, k, j, n, b1, b3):
    blanks = [False, b1, False, b3, False, False]
    lines = [i for i in range(NREC) if not blanks[i]]
    matched = [i for i in lines if i > k]  # lines on which the onmatch push happens
    if mode == "no-matches":
        returned = [i for i in lines if not i > k]
    elif mode == "onmatch-reject":
        returned = [i for i in matched if i != j]  # skip.onmatch rejects line j after the line had matched so far
    else:
        returned = matched
    if n > len(returned):
        cut = NREC
    else:
        cut = returned[n - 1]
    return (returned[:n], [i for i in lines if i <= cut], [i for i in matched if i <= cut])


@ob(
    "C07",
    "O2-collect-nexts",
    pre=["{KLO} <= k <= {KHI}", "1 <= n <= {NHI}", "{KLO} <= j <= {KHI}"],
    post="_ == nexts_oracle(mode, k, j, n, b1, b3)",
    bound="collect(nexts=n), n symbolic 1..NHI (matches+1 included), threshold k symbolic, 6 stub records with 2 symbolic "
    "blank flags; observed: returned lines, per-line pushes (side effects) of every evaluated line and of matched lines",
    outside="more than 6 records",
    encodes=["csvpath/csvpath.py:CsvPath.collect/next/_consider_line"],
    tiers={
        "quick": {"timeout": 900, "K": {"KLO": -1, "KHI": 5, "NHI": 6}, "shards": product(mode=["plain", "no-matches"], j=[-1]) + product(mode=["onmatch-reject"], b1=[False], b3=[False, True])},
        "thorough": {"timeout": 3000, "K": {"KLO": -2, "KHI": 7, "NHI": 8}, "shards": product(mode=["plain", "no-matches"], j=[-1]) + product(mode=["onmatch-reject"])},
    },
)
def nexts_cut(mode: str, k: int, j: int, n: int, b1: bool, b3: bool) -> Tuple[List[int], List[int], List[int]]:
    recs = _recs(b1, b3)
    p, pr = fresh(NEXTS_TPL[mode], recs)
    p.variables["k"] = k
    p.variables["j"] = j
    got = [int(l[0]) for l in p.collect(nexts=n)]
    return (got, list(p.variables.get("s", [])), list(p.variables.get("m", [])))
