"""C18 - a run that aborts still leaves a truthful, readable record.

A real CsvPaths (policy with 'raise') runs a group of 3 members over a 5-record file in a scratch
directory; every member carries 'and(symam() == <its index>, symak() == line_number()) -> mod(1,0)'
where symam()/symak() are external functions returning harness-held symbolic ints (the abort
point: member, line - including "none").  After the run the archive is read back natively.
"""
import os
from typing import Dict, List, Tuple

from crosshair.tracers import NoTracing

from vp import kit, kitpaths
from vp.ob import ob, product

kit.register("symam", "symak")

NM = 3
MEMBERS = ['~id:m%d~ $[*][ push("s", line_number()) and(symam() == %d, symak() == line_number()) -> mod(1, 0) ]' % (i, i) for i in range(NM)]
ND = kitpaths.NDATA

SERIAL = ("collect_paths", "fast_forward_paths", "next_paths")
BYLINE = ("collect_by_line", "fast_forward_by_line", "next_by_line")


def _run(cs, method):
    m = getattr(cs, method)
    if method.startswith("next"):
        for _ in m(filename="data", pathsname="g"):
            pass
    else:
        m(filename="data", pathsname="g")


def abort_oracle(method, am, ak):
    """what the record must say, as a dict of observations"""
    real = 0 <= am < NM and 0 <= ak < ND
    exp = {"raised": real, "run_status_complete": not real, "stores_unchanged": True, "second_run_ok": True, "second_run_own_dir": True}
    if not real:
        exp["members"] = {"m%d" % i: {"readable": True, "completed": True, "error_lines": []} for i in range(NM)}
        return exp
    started = range(am + 1) if method in SERIAL else range(NM)
    mem = {}
    for i in started:
        if i == am:
            mem["m%d" % i] = {"readable": True, "completed": False, "error_lines": [ak]}
        elif method in SERIAL:
            mem["m%d" % i] = {"readable": True, "completed": True, "error_lines": []}
        elif i < am:
            # breadth-first: members before the aborting one had finished line ak; complete iff it was the last line
            mem["m%d" % i] = {"readable": True, "completed": ak == ND - 1, "error_lines": []}
        else:
            # members after it never saw line ak
            mem["m%d" % i] = {"readable": True, "completed": False, "error_lines": []}
    exp["members"] = mem
    return exp


def _observe(run_dir):
    man = kitpaths.read_json(os.path.join(run_dir, "manifest.json")) if os.path.exists(os.path.join(run_dir, "manifest.json")) else {}
    members = {}
    for d in sorted(os.listdir(run_dir)):
        p = os.path.join(run_dir, d)
        if not os.path.isdir(p):
            continue
        rec = {"readable": True, "completed": None, "error_lines": []}
        try:
            kitpaths.read_json(os.path.join(p, "meta.json"))
            kitpaths.read_json(os.path.join(p, "vars.json"))
            errs = kitpaths.read_json(os.path.join(p, "errors.json"))
            rec["error_lines"] = sorted(set(e.get("line_count") for e in errs))
            mm = kitpaths.read_json(os.path.join(p, "manifest.json"))
            rec["completed"] = mm.get("completed")
        except Exception:
            rec["readable"] = False
        members[d] = rec
    return man, members


ENC = ["csvpath/csvpaths.py:CsvPaths.collect_paths/fast_forward_paths/next_paths/next_by_line (except -> handle_error -> save -> re-raise)/clean",
       "csvpath/managers/results/results_manager.py:ResultsManager.start_run/add_named_result/save/complete_run",
       "csvpath/managers/results/result_serializer.py:ResultSerializer.save_result/get_run_dir",
       "csvpath/managers/results/result_registrar.py:ResultRegistrar.register_complete/completed",
       "csvpath/util/error.py:ErrorHandler.handle_error/build", "csvpath/util/line_spooler.py:CsvLineSpooler"]


class _Clock:
    """stands in for datetime inside csvpath.csvpaths: the harness sets the time a run starts at"""

    NOW = None

    @classmethod
    def now(cls, tz=None):
        return cls.NOW


POLICIES = {"rcp": ("raise, collect, print", None), "rcs/c": ("raise, collect, stop", "collect")}


@ob(
    "C18",
    "O1-abort-record",
    pre=["-1 <= am <= {MHI}", "-1 <= ak <= {KHI}"],
    post="_ == abort_oracle(method, am, ak)",
    bound="group of 3 members over a 5-record file (quoted delimiter, embedded newline); abort point (member am, line ak) symbolic "
    "over -1..MHI x -1..KHI = every abort point and 'no abort'; run method and error policies per shard (csvpath policy 'raise, collect, print' with the default csvpaths policy, or 'raise, collect, stop' with a csvpaths policy that has no 'raise'); afterwards: exception reached the caller; "
    "run manifest status; per started member: meta/vars/errors readable, errors.json names line ak, manifest completed; inputs "
    "stores byte-identical; a second run on the same instance (7 s later, stubbed clock) archives normally in its own run directory named by its own start time",
    outside="I/O faults; groups of 1, 2 or 4; files of more than 5 lines; the symbolic abort point is realised when the archive is "
    "written, so the solver drives a walk over the box (each path still ends in a z3-checked assertion)",
    encodes=ENC,
    tiers={"quick": {"timeout": 1500, "K": {"MHI": 3, "KHI": 5}, "shards": product(method=["collect_paths", "collect_by_line"], am=[-1, 0, 1, 2]) + product(method=["next_paths", "fast_forward_paths", "fast_forward_by_line", "next_by_line"], am=[0, 2])
                     + product(method=["collect_paths", "collect_by_line"], am=[1], pol=["rcs/c"])},
           "thorough": {"timeout": 5000, "K": {"MHI": 3, "KHI": 5}, "shards": product(method=list(SERIAL + BYLINE), am=[-1, 0, 1, 2, 3]) + product(method=list(SERIAL + BYLINE), am=[0, 2], pol=["rcs/c"])}},
)
def abort_record(method: str, am: int, ak: int, pol: str = "rcp") -> Dict[str, object]:
    import datetime
    import csvpath.csvpaths as _cps
    from csvpath.managers.results.result_serializer import ResultSerializer

    t0 = datetime.datetime(2031, 5, 6, 9, 30, 0, tzinfo=datetime.timezone.utc)
    t1 = t0 + datetime.timedelta(seconds=7)
    saved = _cps.datetime
    with NoTracing():
        _cps.datetime = _Clock
        _Clock.NOW = t0
    try:
        return _abort_record(method, am, ak, pol, t1, ResultSerializer("archive").get_run_dir_name_from_datetime(t1))
    finally:
        with NoTracing():
            _cps.datetime = saved


def _abort_record(method, am, ak, pol, t1, stamp1) -> Dict[str, object]:
    with NoTracing():
        root, cs = kitpaths.env({"g": MEMBERS}, policy=POLICIES[pol][0], paths_policy=POLICIES[pol][1])
        before = kitpaths.tree_digest("inputs")
    kit.HOLD["symam"] = am
    kit.HOLD["symak"] = ak
    raised = False
    try:
        _run(cs, method)
    except Exception:
        raised = True
    with NoTracing():
        runs = sorted(os.listdir("archive/g"))
        man, members = _observe(os.path.join("archive/g", runs[0]))
        first = kitpaths.tree_digest(os.path.join("archive/g", runs[0]))
        after = kitpaths.tree_digest("inputs")
    # a further run on the same instance, 7 seconds later, without abort
    with NoTracing():
        _Clock.NOW = t1
    kit.HOLD["symam"] = -1
    kit.HOLD["symak"] = -1
    second_ok = True
    try:
        _run(cs, method)
    except Exception:
        second_ok = False
    with NoTracing():
        runs2 = sorted(os.listdir("archive/g"))
        own = len(runs2) == 2 and kitpaths.tree_digest(os.path.join("archive/g", runs[0])) == first
        if second_ok and len(runs2) == 2:
            other = [r for r in runs2 if r != runs[0]][0]
            man2, members2 = _observe(os.path.join("archive/g", other))
            second_ok = man2.get("status") == "complete" and len(members2) == NM and all(m["readable"] for m in members2.values())
            # it is archived under its own start time, not under the aborted run's
            second_ok = second_ok and other == stamp1
        kitpaths.cleanup(root)
    return {"raised": raised, "run_status_complete": man.get("status") == "complete", "members": members,
            "stores_unchanged": before == after, "second_run_ok": second_ok, "second_run_own_dir": own}


# ------------------------------------------------------------------ O2 an abort raised outside the match components
OUT_MEMBERS = ['~id:m0~ $[*][ yes() ]', '~id:m1~ $[*][ @x = line_number() collect(0, 1) ]']


def _short_data(k):
    rows = ["h1,h2"]
    for i in range(1, 6):
        rows.append("a%d" % i if i == k else "a%d,b%d" % (i, i))
    return "\n".join(rows) + "\n"


@ob(
    "C18",
    "O2-abort-outside-match",
    pre=["{LO} <= k <= {HI}"],
    post="_ == ''",
    bound="group of 2 members over a 6-record file whose line k (symbolic 0..4; none for k = 0; the last line is never the short one: an abort on the last line is the known finding of O1) lacks the second cell; the second "
    "member limits collection to headers 0 and 1, so CsvPath.next() itself raises on line k - outside any match component, before "
    "anything of that member's data.csv is on disk; serial run methods (shards): the exception reaches the caller, the first member "
    "is complete, the aborted member's files are readable, its errors.json names line k and its manifest says completed false",
    outside="breadth-first methods; other faults raised outside match components",
    encodes=ENC + ["csvpath/csvpath.py:CsvPath.next/limit_collection", "csvpath/util/error.py:ErrorHandler.__init__ (error collector)"],
    tiers={"quick": {"timeout": 900, "K": {"LO": 0, "HI": 4}, "shards": product(method=["collect_paths", "fast_forward_paths", "next_paths"])}},
)
def abort_outside_match(method: str, k: int) -> str:
    data = _short_data(k)
    hit = [i for i in range(1, 6) if i == k]  # traced: k becomes a concrete line along this path
    fired = len(hit) == 1
    k = hit[0] if fired else 0
    with NoTracing():
        root, cs = kitpaths.env({"g": OUT_MEMBERS}, policy="raise, collect, print", data=data)
    raised = False
    try:
        _run(cs, method)
    except Exception:
        raised = True
    problems = []
    with NoTracing():
        runs = sorted(os.listdir("archive/g"))
        man, members = _observe(os.path.join("archive/g", runs[-1]))
        if raised != fired:
            problems.append(f"raised={raised}, expected {fired}")
        m0, m1 = members.get("m0"), members.get("m1")
        if m0 is None or not m0["readable"] or m0["completed"] is not True or m0["error_lines"]:
            problems.append(f"first member: {m0}")
        if m1 is None or not m1["readable"]:
            problems.append(f"aborted member not readable: {m1}")
        elif fired and (m1["error_lines"] != [k] or m1["completed"] is not False):
            problems.append(f"aborted member: {m1}, expected an error on line {k} and completed false")
        elif not fired and (m1["error_lines"] or m1["completed"] is not True):
            problems.append(f"second member without abort: {m1}")
        kitpaths.cleanup(root)
    return "; ".join(problems)
