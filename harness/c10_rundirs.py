"""C10 - every run gets its own run directory and never touches an earlier run's results.

O1 (E2, z3 linear integer arithmetic generated from format literals in the source): the strftime
   literal of ResultSerializer.get_run_dir_name_from_datetime and the strptime literals of
   ResultsManager._find_in_dir_names are taken from the AST on every run and turned, through a
   directive table, into arithmetic over the civil fields of a clock reading.  Queries over ALL
   readings (year 2000..2099, month, day 1..28, H, M, S):
     order       no t1 < t2 in different seconds whose directory names sort (by the parsed key) the wrong way round
     injective   no two different seconds with the same directory name
     suffix      a '.N' collision suffix (N <= 999999, parsed by %f) never moves a name past a name of a later second
   A model is a pair of clock readings; it is replayed with real datetimes through the two real functions.
O2 (E1): one step from a reachable pre-state: a CsvPaths that completed a run of group g1, then a
   run of g1 or g2 on the same or a new instance (symbolic choices): the new run writes under its
   own group in a directory no earlier run used and leaves every earlier file byte-identical.
"""
import ast
import datetime
import inspect
import os
import time
from typing import List, Tuple

import z3
from crosshair.tracers import NoTracing

from vp import kit, kitpaths
from vp.ob import ob, product


def _literals(module, cls, fn):
    src = inspect.getsource(module)
    tree = ast.parse(src)
    out = []
    for node in ast.walk(tree):
        if isinstance(node, ast.ClassDef) and node.name == cls:
            for f in node.body:
                if isinstance(f, ast.FunctionDef) and f.name == fn:
                    for n in ast.walk(f):
                        if isinstance(n, ast.Constant) and isinstance(n.value, str) and "%" in n.value and "\n" not in n.value and " " not in n.value:
                            out.append(n.value)
    return out


def formats():
    import csvpath.managers.results.result_serializer as rs
    import csvpath.managers.results.results_manager as rm

    render = _literals(rs, "ResultSerializer", "get_run_dir_name_from_datetime")
    parse = _literals(rm, "ResultsManager", "_find_in_dir_names")
    return render, parse


class Unmodelled(Exception):
    pass


def split_format(fmt):
    """-> [('lit', text) | ('dir', letter)]"""
    out = []
    i = 0
    lit = ""
    while i < len(fmt):
        if fmt[i] == "%":
            if lit:
                out.append(("lit", lit))
                lit = ""
            out.append(("dir", fmt[i + 1]))
            i += 2
        else:
            lit += fmt[i]
            i += 1
    if lit:
        out.append(("lit", lit))
    return out


def rendered_fields(fmt, T):
    """values (z3 ints) the strftime directives print for clock reading T = dict(Y,m,d,H,M,S)"""
    vals = []
    for kind, x in split_format(fmt):
        if kind == "lit":
            continue
        if x in "YmdHMS":
            vals.append((x, T[x]))
        elif x == "I":
            vals.append((x, z3.If(T["H"] % 12 == 0, z3.IntVal(12), T["H"] % 12)))
        else:
            raise Unmodelled("strftime directive %" + x)
    return vals


def parsed_key(render_fmt, parse_fmt, T, suffix=None):
    """the sort key strptime(parse_fmt) computes from the text strftime(render_fmt) printed (+ optional .N suffix)"""
    r = [p for p in split_format(render_fmt)]
    p = [q for q in split_format(parse_fmt)]
    rl = [x for k, x in r if k == "lit"]
    pl = [x for k, x in p if k == "lit"]
    rd = rendered_fields(render_fmt, T)
    pd = [x for k, x in p if k == "dir"]
    if suffix is None:
        if rl != pl or len(rd) != len(pd):
            raise Unmodelled(f"render {render_fmt!r} and parse {parse_fmt!r} differ in structure")
    else:
        if rl + ["."] != pl or len(rd) + 1 != len(pd) or pd[-1] != "f":
            raise Unmodelled(f"render {render_fmt!r} + '.N' and parse {parse_fmt!r} differ in structure")
    field = {}
    for (rx, val), px in zip(rd, pd):
        if px in "YmdHMS":
            field[px] = val  # the digits are read back as this field
        elif px == "I":
            field["H"] = val % 12
        else:
            raise Unmodelled("strptime directive %" + px)
    if suffix is not None:
        field["f"] = suffix
    else:
        field["f"] = z3.IntVal(0)
    for k in "YmdHMS":
        if k not in field:
            raise Unmodelled("no field " + k)
    return [field[k] for k in "YmdHMSf"]


def clock(prefix):
    T = {k: z3.Int(prefix + k) for k in "YmdHMS"}
    dom = z3.And(2000 <= T["Y"], T["Y"] <= 2099, 1 <= T["m"], T["m"] <= 12, 1 <= T["d"], T["d"] <= 28,
                 0 <= T["H"], T["H"] <= 23, 0 <= T["M"], T["M"] <= 59, 0 <= T["S"], T["S"] <= 59)
    return T, dom


def lex_lt(a, b):
    """a < b lexicographically (lists of z3 ints)"""
    if not a:
        return z3.BoolVal(False)
    return z3.Or(a[0] < b[0], z3.And(a[0] == b[0], lex_lt(a[1:], b[1:])))


def lex_le(a, b):
    return z3.Or(lex_lt(a, b), z3.And(*[x == y for x, y in zip(a, b)]))


def _model_time(m, T):
    return {k: m.eval(T[k], model_completion=True).as_long() for k in "YmdHMS"}


@ob(
    "C10",
    "O1-names-chronological",
    kind="query",
    bound="all clock readings with year 2000..2099, month 1..12, day 1..28, hour 0..23, minute, second 0..59 (so every time of "
    "day incl. 12:59->13:00 and 23:59->00:00 next day); collision suffixes .0 .. .999999; three z3 LIA queries built from the "
    "format literals found in the source",
    outside="days 29..31 (same arithmetic); order among runs of the same second (not claimed by the property); suffixes of more than 6 digits",
    encodes=["csvpath/managers/results/result_serializer.py:ResultSerializer.get_run_dir_name_from_datetime (strftime literal, from the AST)",
             "csvpath/managers/results/results_manager.py:ResultsManager._find_in_dir_names (strptime literals, from the AST)"],
    tiers={"quick": {"timeout": 300}},
)
def names_chronological(tier, cfg, shard, carve):
    t0 = time.time()
    try:
        render, parse = formats()
        if len(render) != 1 or len(parse) != 2:
            raise Unmodelled(f"expected 1 strftime and 2 strptime literals, found {render} / {parse}")
        rfmt = render[0]
        p_plain = [f for f in parse if "%f" not in f][0]
        p_ms = [f for f in parse if "%f" in f][0]
        T1, d1 = clock("a")
        T2, d2 = clock("b")
        t1 = [T1[k] for k in "YmdHMS"]
        t2 = [T2[k] for k in "YmdHMS"]
        queries = []
        # order: t1 < t2 (different seconds) but key(t1) >= key(t2)
        k1 = parsed_key(rfmt, p_plain, T1)
        k2 = parsed_key(rfmt, p_plain, T2)
        queries.append(("order", z3.And(d1, d2, lex_lt(t1, t2), lex_le(k2, k1)), None))
        # injective: different seconds, same printed fields
        f1 = [v for _, v in rendered_fields(rfmt, T1)]
        f2 = [v for _, v in rendered_fields(rfmt, T2)]
        queries.append(("injective", z3.And(d1, d2, lex_lt(t1, t2), *[x == y for x, y in zip(f1, f2)]), None))
        # suffix: '.N' names keep the order between different seconds
        n1, n2 = z3.Ints("n1 n2")
        s1 = parsed_key(rfmt, p_ms, T1, suffix=n1)
        s2 = parsed_key(rfmt, p_ms, T2, suffix=n2)
        sufdom = z3.And(0 <= n1, n1 <= 999999, 0 <= n2, n2 <= 999999)
        queries.append(("suffix", z3.And(d1, d2, sufdom, lex_lt(t1, t2), z3.Or(lex_le(s2, s1), lex_le(k2, s1), lex_le(s2, k1))), (n1, n2)))
    except Unmodelled as e:
        return {"verdict": "CANNOT_CONFIRM", "message": "unmodelled: " + str(e), "cex": None, "z3_queries": 0, "z3_s": 0, "paths": 0}
    q = 0
    zs = 0.0
    # vacuity: the domain itself is satisfiable
    s = z3.Solver()
    s.add(d1, d2, lex_lt(t1, t2))
    if str(s.check()) != "sat":
        return {"verdict": "VACUOUS", "message": "clock domain unsatisfiable", "cex": None, "z3_queries": 1, "z3_s": 0, "paths": 0}
    witness = {"t1": _model_time(s.model(), T1), "t2": _model_time(s.model(), T2), "strftime": rfmt, "strptime": [p_plain, p_ms]}
    for name, formula, extra in queries:
        s = z3.Solver()
        s.set("timeout", 120000)
        s.add(formula)
        t = time.time()
        r = s.check()
        zs += time.time() - t
        q += 1
        if str(r) == "sat":
            m = s.model()
            cex = {"query": name, "t1": _model_time(m, T1), "t2": _model_time(m, T2)}
            if extra:
                cex["n1"] = m.eval(extra[0], model_completion=True).as_long()
                cex["n2"] = m.eval(extra[1], model_completion=True).as_long()
            return {"verdict": "SAT", "message": f"query {name} has a model", "cex": cex, "z3_queries": q + 1, "z3_s": round(zs, 3), "paths": q, "witness": witness}
        if str(r) != "unsat":
            return {"verdict": "CANNOT_CONFIRM", "message": f"query {name}: {r}", "cex": None, "z3_queries": q + 1, "z3_s": round(zs, 3), "paths": q}
    return {"verdict": "UNSAT", "message": "", "cex": None, "z3_queries": q + 1, "z3_s": round(zs, 3), "paths": q, "witness": witness,
            "engine": "z3 LIA queries from format literals", "extra": {"strftime": rfmt, "strptime": [p_plain, p_ms], "queries": [n for n, _, _ in queries]}}


def replay_names_chronological(args):
    """real datetimes through the real functions"""
    from csvpath.managers.results.result_serializer import ResultSerializer
    from csvpath.managers.results.results_manager import ResultsManager

    def dt(t):
        return datetime.datetime(t["Y"], t["m"], t["d"], t["H"], t["M"], t["S"], tzinfo=datetime.timezone.utc)

    rs = ResultSerializer("archive")
    a = rs.get_run_dir_name_from_datetime(dt(args["t1"]))
    b = rs.get_run_dir_name_from_datetime(dt(args["t2"]))
    if args["query"] == "suffix":
        a = f"{a}.{args['n1']}"
        b = f"{b}.{args['n2']}"
    if a == b:
        return (True, f"different seconds {args['t1']} and {args['t2']} give the same run directory name {a}")
    rm = ResultsManager.__new__(ResultsManager)
    last = rm._find_in_dir_names("", [a, b], True)
    first = rm._find_in_dir_names("", [b, a], False)
    bad = last != b or first != a
    return (bad, f"t1={args['t1']} -> {a}; t2={args['t2']} -> {b}; :last resolves to {last}, :first to {first}")


# ------------------------------------------------------------------ O2 (E1) steps from a reachable pre-state
import csvpath.csvpaths as _cps  # noqa: E402

GROUPS = {"g1": ['~id:a~ $[*][ yes() ]'], "g2": ['~id:b~ $[*][ gt(line_number(), 1) ]']}
T0 = datetime.datetime(2031, 5, 6, 12, 59, 59, tzinfo=datetime.timezone.utc)


class _Clock:
    """stands in for the datetime class inside csvpath.csvpaths: now() is whatever the harness says"""

    NOW = T0

    @classmethod
    def now(cls, tz=None):
        return cls.NOW


def _run(cs, method, group):
    m = getattr(cs, method)
    if method.startswith("next"):
        for _ in m(filename="data", pathsname=group):
            pass
    else:
        m(filename="data", pathsname=group)


def _dirs():
    out = set()
    for g in sorted(os.listdir("archive")) if os.path.isdir("archive") else []:
        if not os.path.isdir(os.path.join("archive", g)):
            continue
        for r in sorted(os.listdir(os.path.join("archive", g))):
            if os.path.isdir(os.path.join("archive", g, r)):
                out.add(g + "/" + r)
    return out


def _run_files():
    """{path: sha256} of the files inside run directories (archive/<group>/<run>/...)"""
    return {f: h for f, h in kitpaths.tree_digest("archive").items() if f.count(os.sep) >= 2}


@ob(
    "C10",
    "O2-own-directory",
    post="_ == ''",
    bound="history: run of g1, then two further runs; for each further run symbolic choices {same group / other group} x {reused "
    "instance / new instance} x {same second / +1 s (12:59:59 -> 13:00:00)} (clock stubbed); run methods per shard; after every run: "
    "exactly one new directory, under archive/<its own group>/, and every file of every earlier run byte-identical",
    outside="histories longer than 3 runs (the carried state is the archive tree and the instance's run-time fields, both "
    "reached here); other clock jumps (O1)",
    encodes=["csvpath/csvpaths.py:CsvPaths.run_time_str/current_run_time/clean/clear_run_coordination/<run methods>",
             "csvpath/managers/results/result_serializer.py:ResultSerializer.get_run_dir", "csvpath/managers/results/results_manager.py:ResultsManager.get_run_time_str/start_run/save"],
    tiers={"quick": {"timeout": 1800, "shards": product(m1=["collect_paths"], m2=["collect_paths", "fast_forward_by_line", "fast_forward_paths", "next_paths"], o1=[False, True])},
           "thorough": {"timeout": 6000, "shards": product(m1=["collect_paths", "next_by_line"], m2=["collect_paths", "fast_forward_paths", "next_paths", "collect_by_line", "fast_forward_by_line", "next_by_line"], o1=[False, True])}},
)
def own_directory(m1: str, m2: str, o1: bool, r1: bool, s1: bool, o2: bool, r2: bool, s2: bool) -> str:
    problems = ""
    saved = _cps.datetime
    with NoTracing():
        _cps.datetime = _Clock
        _Clock.NOW = T0
        root, cs = kitpaths.env(GROUPS)
    try:
        _run(cs, m1, "g1")
        with NoTracing():
            dirs = _dirs()
            digest = _run_files()
            if len(dirs) != 1:
                problems += f"first run made {len(dirs)} directories; "
        now = T0
        for step, (other, reuse, same) in enumerate(((o1, r1, s1), (o2, r2, s2))):
            group = "g2" if other else "g1"
            with NoTracing():
                if not same:
                    now = now + datetime.timedelta(seconds=1)
                _Clock.NOW = now
                inst = cs if reuse else kitpaths.new_instance()
            _run(inst, m2, group)
            with NoTracing():
                dirs2 = _dirs()
                new = dirs2 - dirs
                if len(new) != 1:
                    problems += f"step {step + 1}: {len(new)} new run directories ({sorted(new)}); "
                elif not list(new)[0].startswith(group + "/"):
                    problems += f"step {step + 1}: run of {group} wrote {sorted(new)}; "
                digest2 = _run_files()
                for f, h in digest.items():
                    if digest2.get(f) != h:
                        problems += f"step {step + 1}: earlier file {f} changed; "
                        break
                dirs, digest = dirs2, digest2
    finally:
        with NoTracing():
            _cps.datetime = saved
            kitpaths.cleanup(root)
    return problems


# ------------------------------------------------------------------ O3 (E1 kernel) the collision loop of get_run_dir
@ob(
    "C10",
    "O3-unused-run-dir",
    pre=["0 <= k <= {KHI}"],
    post="_ == ''",
    bound="ResultSerializer.get_run_dir for a clock reading whose plain directory and its first k-1 collision directories (.0 .. .k-2) "
    "already exist, k symbolic 0..KHI (= k earlier runs of the same group in the same second): the directory returned does not exist "
    "yet, lies under archive/<group>/ and starts with the time stamp",
    outside="more than KHI same-second runs",
    encodes=["csvpath/managers/results/result_serializer.py:ResultSerializer.get_run_dir/get_run_dir_name_from_datetime"],
    tiers={"quick": {"timeout": 300, "K": {"KHI": 6}}},
)
def unused_run_dir(k: int) -> str:
    from csvpath.managers.results.result_serializer import ResultSerializer

    with NoTracing():
        root = os.path.join(kit.workdir(), "rundir%d" % os.getpid())
        import shutil

        shutil.rmtree(root, ignore_errors=True)
        os.makedirs(root)
        rs = ResultSerializer(os.path.join(root, "archive"))
    stamp = rs.get_run_dir_name_from_datetime(T0)
    existing = []
    for i in range(k):
        name = stamp if i == 0 else "%s.%d" % (stamp, i - 1)
        existing.append(name)
    with NoTracing():
        for name in existing:
            os.makedirs(os.path.join(root, "archive", "g", name))
    got = rs.get_run_dir(paths_name="g", run_time=T0)
    problems = ""
    with NoTracing():
        base = os.path.basename(got)
        if os.path.exists(got):
            problems += f"{got} already exists (earlier runs: {existing}); "
        if os.path.dirname(got) != os.path.join(root, "archive", "g"):
            problems += f"{got} is not under archive/g; "
        if not base.startswith(stamp):
            problems += f"{base} does not start with {stamp}; "
        shutil.rmtree(root, ignore_errors=True)
    return problems


# ------------------------------------------------------------------ O4 :last / :first among run directories with same-second suffixes
SEC = ["10", "11", "12", "13"]
PERMS = [(0, 1, 2), (0, 2, 1), (1, 0, 2), (1, 2, 0), (2, 0, 1), (2, 1, 0)]


@ob(
    "C10",
    "O4-last-first-resolution",
    pre=["0 <= s0 < 4 and 0 <= s1 < 4 and 0 <= s2 < 4", "0 <= perm < 6"],
    post="_ == ''",
    bound="the real ResultsManager._find_in_dir_names over three run-directory names of one day: seconds s0, s1, s2 symbolic (4 values, "
    "equal seconds allowed), each optionally carrying the same-second suffix '.0' (symbolic; the first name never), listed in any of "
    "the 6 orders (symbolic): ':last' is a run of the greatest second and ':first' a run of the smallest (which of two runs of one "
    "second is not claimed); the prefix selects only names that start with it",
    outside="more than three run directories; suffixes above .0; microsecond-like suffixes",
    encodes=["csvpath/managers/results/results_manager.py:ResultsManager._find_in_dir_names"],
    tiers={"quick": {"timeout": 900}},
)
def last_first_resolution(s0: int, s1: int, s2: int, f1: bool, f2: bool, perm: int, last: bool) -> str:
    from csvpath.managers.results.results_manager import ResultsManager

    secs = [s0, s1, s2]
    names = ["2031-05-06_13-00-" + SEC[s0], "2031-05-06_13-00-" + SEC[s1] + (".0" if f1 else ""), "2031-05-06_13-00-" + SEC[s2] + (".0" if f2 else "")]
    # a collision suffix only exists next to the unsuffixed directory of the same second
    if f1 and s1 != s0:
        return ""
    if f2 and not (s2 == s0 or (s2 == s1 and not f1)):
        return ""
    if f1 and f2 and s1 == s2:
        return ""
    order = PERMS[perm]
    listed = [names[order[0]], names[order[1]], names[order[2]], "2031-05-07_09-00-00"]
    with NoTracing():
        rm = ResultsManager.__new__(ResultsManager)
        rm._csvpaths = None
    got = rm._find_in_dir_names("2031-05-06", listed, last)
    want_sec = max(secs) if last else min(secs)
    ok = [n for n, s in zip(names, secs) if s == want_sec]
    if got not in ok:
        return f"{'last' if last else 'first'} of {listed} gave {got}, expected one of {ok}"
    return ""
