"""C03 - variables and run counters end up with the values the csvpath assigns.

Run-level obligations over stub records; operands are symbolic ints / Optional ints /
bools held in variables (channel 1) or choosing between concrete cells (channel 2);
stack pre-states are symbolic.  Oracles are left-to-right folds written from
docs/variables.md and docs/functions/{pop,count,counter,tally,sum,subtotal,every,first,increment}.md.
"""
from typing import Dict, List, Optional, Tuple

from vp.kit import fresh
from vp.ob import ob, product
from harness.c02_scan import load_scanner

ENC_RUN = ["csvpath/csvpath.py:CsvPath.next/_consider_line/set_variable/get_variable/raise_match_count_if",
           "csvpath/matching/matcher.py:Matcher.matches/get_variable/set_variable"]


# ------------------------------------------------------------------ assignment chains
@ob(
    "C03",
    "O1-assign-chain",
    pre=["{LO} <= x <= {HI}", "{LO} <= y <= {HI}"],
    post="_ == (x, x + y, dict(k=x + y), [x, x, x], [x + y + 1, x + y + 2, x + y + 3], x + y + 3)",
    bound="4 stub records, scan 1*, symbolic ints x,y LO..HI; assignments that depend on earlier components of the same line, "
    "a tracking-keyed assignment, per-line pushes of the values",
    outside="text-valued operands; more than 3 data lines",
    encodes=ENC_RUN + ["csvpath/matching/productions/equality.py:Equality._do_assignment/_do_assignment_new_impl", "csvpath/matching/productions/variable.py:Variable.to_value",
                       "csvpath/matching/functions/math/add.py:Add._produce_value"],
    tiers={"quick": {"timeout": 600, "K": {"LO": -2, "HI": 11}}, "thorough": {"timeout": 2400, "K": {"LO": -11, "HI": 101}}},
)
def assign_chain(x: int, y: int) -> Tuple[int, int, Dict[str, int], List[int], List[int], int]:
    p, pr = fresh('$SYM[1*][ @a = @x  @b = add(@a, @y)  @t.k = @b  push("pa", @a)  @c = add(@b, line_number())  push("pc", @c) ]',
                  [["h"], ["1"], ["2"], ["3"]])
    p.variables["x"] = x
    p.variables["y"] = y
    p.fast_forward()
    v = p.variables
    return (v.get("a"), v.get("b"), dict(v.get("t") or {}), list(v.get("pa", [])), list(v.get("pc", [])), v.get("c"))


# ------------------------------------------------------------------ stack functions, one step from a symbolic pre-state
def stack_of(a, b, c, n):
    return [a, b, c][:n]


@ob(
    "C03",
    "O2-pop-step",
    pre=["0 <= n <= 3", "-2 <= a <= 11 and -2 <= b <= 11 and -2 <= c <= 11"],
    post="_ == ((stack_of(a, b, c, n)[-1] if n > 0 else None), stack_of(a, b, c, n)[:-1])",
    bound="stack pre-state of length n<=3 with symbolic int items -2..11; one line evaluating '@v = pop(\"s\")'",
    encodes=ENC_RUN + ["csvpath/matching/functions/variables/pushpop.py:Pop._produce_value"],
    tiers={"quick": {"timeout": 300}},
)
def pop_step(a: int, b: int, c: int, n: int) -> Tuple[Optional[int], List[int]]:
    p, pr = fresh('$SYM[1][ @v = pop("s") ]', [["h"], ["a"]])
    p.variables["s"] = stack_of(a, b, c, n)
    p.fast_forward()
    return (p.variables.get("v"), list(p.variables.get("s")))


def push_oracle(kind, a, b, n, y):
    s = stack_of(a, b, 0, n)
    if kind == "distinct" and y in s:
        return s
    if kind == "notnone" and y is None:
        return s
    return s + [y]


@ob(
    "C03",
    "O2-push-step",
    pre=["0 <= n <= 2", "y is None or -10**6 <= y <= 10**6", "-10**6 <= a <= 10**6 and -10**6 <= b <= 10**6"],
    post="_ == push_oracle(kind, a, b, n, y)",
    bound="stack pre-state of length n<=2 (symbolic ints), pushed value y symbolic Optional[int], ints |x|<=10**6; push, push.distinct, push.notnone",
    encodes=ENC_RUN + ["csvpath/matching/functions/variables/pushpop.py:Push._decide_match"],
    tiers={"quick": {"timeout": 300, "shards": product(kind=["plain", "distinct", "notnone"])}},
)
def push_step(kind: str, a: int, b: int, n: int, y: Optional[int]) -> List[Optional[int]]:
    q = {"plain": "", "distinct": ".distinct", "notnone": ".notnone"}[kind]
    p, pr = fresh('$SYM[1][ push%s("s", @y) ]' % q, [["h"], ["a"]])
    p.variables["s"] = stack_of(a, b, 0, n)
    p.variables["y"] = y
    p.fast_forward()
    return list(p.variables.get("s"))


@ob(
    "C03",
    "O2-peek-step",
    pre=["0 <= n <= 3", "-2 <= a <= 11 and -2 <= b <= 11 and -2 <= c <= 11"],
    post="_ == ((stack_of(a, b, c, n)[1] if n > 1 else None), n, stack_of(a, b, c, n))",
    bound="stack pre-state of length n<=3, items symbolic ints -2..11; '@v = peek(\"s\", 1) @z = peek_size(\"s\")' must not modify the stack",
    encodes=ENC_RUN + ["csvpath/matching/functions/variables/pushpop.py:Peek._produce_value/PeekSize"],
    tiers={"quick": {"timeout": 300}},
)
def peek_step(a: int, b: int, c: int, n: int) -> Tuple[Optional[int], int, List[int]]:
    p, pr = fresh('$SYM[1][ @v = peek("s", 1) @z = peek_size("s") ]', [["h"], ["a"]])
    p.variables["s"] = stack_of(a, b, c, n)
    p.fast_forward()
    return (p.variables.get("v"), p.variables.get("z"), list(p.variables.get("s")))


# ------------------------------------------------------------------ counters on every line
NREC = 6


def counters_oracle(start, k, b0, b1, b2, b3, b4):
    blanks = [b0, b1, b2, b3, b4, False]
    cl, cs, ln, cm = [], [], [], []
    scans = matches = data = 0
    for i in range(NREC):
        if not blanks[i]:
            data += 1  # count_lines(): lines of data to this point (docs/functions.md), blanks excluded
        if blanks[i] or i < start:
            continue
        scans += 1
        cl.append(data)
        cs.append(scans)
        ln.append(i)
        if i > k:
            matches += 1
            cm.append(matches)
    return (cl, cs, ln, cm, scans, matches)


@ob(
    "C03",
    "O3-counters",
    pre=["0 <= start <= {SHI}", "-1 <= k <= {KHI}"],
    post="_ == counters_oracle(start, k, b0, b1, b2, b3, b4)",
    bound="6 stub records with 5 symbolic blank flags (a blank first record included); scan 'start*' with symbolic start through the real productions; match "
    "threshold k symbolic; per line: count_lines() (1-based), count_scans(), line_number() (0-based), count() on matching lines; "
    "afterwards scan_count and match_count",
    outside="count() observed on non-matching lines (documented only 'as if' the line matched); more than 6 records",
    encodes=ENC_RUN + ["csvpath/matching/functions/counting/count.py:Count.to_value", "csvpath/matching/functions/counting/count_lines.py", "csvpath/matching/functions/counting/count_scans.py",
                       "csvpath/util/line_monitor.py:LineMonitor.next_line"],
    tiers={"quick": {"timeout": 900, "K": {"SHI": 6, "KHI": 6}, "shards": product(b0=[False, True], b2=[False], b4=[False])},
           "thorough": {"timeout": 3000, "K": {"SHI": 7, "KHI": 6}, "shards": product(b2=[False, True], b4=[False, True])}},
)
def counters_run(start: int, k: int, b0: bool, b1: bool, b2: bool, b3: bool, b4: bool) -> Tuple[List[int], List[int], List[int], List[int], int, int]:
    blanks = [b0, b1, b2, b3, b4, False]
    recs = [[] if blanks[i] else [str(i)] for i in range(NREC)]
    p, pr = fresh('$SYM[*][ push("cl", count_lines()) push("cs", count_scans()) push("ln", line_number()) gt(line_number(), @k) push("call", count()) ]', recs)
    p.scanner = load_scanner(p, "N*", [start, 0, 0, 0, 0, 0])
    p.variables["k"] = k
    p.fast_forward()
    v = p.variables
    lns = list(v.get("ln", []))
    # count() is compared on the matching lines only (on other lines it answers "as if" the line matched)
    cm = [c for i, c in zip(lns, list(v.get("call", []))) if i > k]
    return (list(v.get("cl", [])), list(v.get("cs", [])), lns, cm, p.scan_count, p.match_count)


# ------------------------------------------------------------------ aggregate bookkeeping
def _cat(f):
    return "a" if f else "b"


def _num(f):
    return 2 if f else 10


def agg_oracle(f1, f2, f3, g1, g2, g3, inc):
    fs = [f1, f2, f3]
    gs = [g1, g2, g3]
    tally = {}
    count = {}
    sub = {}
    first = {}
    total = 0
    ctr = 0
    for i in range(3):
        c = _cat(fs[i])
        n = _num(gs[i])
        tally[c] = tally.get(c, 0) + 1
        count[c] = count.get(c, 0) + 1
        sub[c] = sub.get(c, 0) + n
        if c not in first:
            first[c] = i
        total += n
        ctr += inc
    return (tally, count, sub, first, total, ctr)


@ob(
    "C03",
    "O4-aggregates",
    pre=["{LO} <= inc <= {HI}"],
    post="_ == agg_oracle(f1, f2, f3, g1, g2, g3, inc)",
    bound="3 lines scanned from physical line 0; category cell 'a'/'b' and numeric cell 2/10 chosen per line by symbolic bools; counter increment inc "
    "symbolic LO..HI; named bookkeeping of tally, count(x), subtotal, first, sum, counter compared after the run",
    outside="more than 3 data lines; more than 2 categories; text-valued sums",
    encodes=ENC_RUN + ["csvpath/matching/functions/counting/tally.py", "csvpath/matching/functions/counting/count.py:Count._get_contained_value", "csvpath/matching/functions/math/subtotal.py",
                       "csvpath/matching/functions/lines/first.py", "csvpath/matching/functions/math/sum.py", "csvpath/matching/functions/counting/counter.py"],
    tiers={"quick": {"timeout": 900, "K": {"LO": -2, "HI": 11}}, "thorough": {"timeout": 2400, "K": {"LO": -11, "HI": 101}}},
)
def aggregates(f1: bool, f2: bool, f3: bool, g1: bool, g2: bool, g3: bool, inc: int) -> Tuple[Dict[str, int], Dict[str, int], Dict[str, int], Dict[str, int], int, int]:
    recs = [[_cat(f1), str(_num(g1))], [_cat(f2), str(_num(g2))], [_cat(f3), str(_num(g3))]]
    p, pr = fresh('$SYM[*][ tally.t(#0) count.cn(#0) subtotal.st(#0, #1) first.fi(#0) sum.su(#1) counter.ct(@inc) ]', recs)
    p.variables["inc"] = inc
    p.fast_forward()
    v = p.variables
    tk = [k for k in v if k.startswith("t_")]
    return (dict(v.get(tk[0]) or {}) if tk else {}, dict(v.get("cn") or {}), dict(v.get("st") or {}), dict(v.get("fi") or {}), v.get("su"), v.get("ct"))


EVERY_WRAP = {"plain": "every.e(#cat, 2)", "not": "not(every.e(#cat, 2))", "or": "or(every.e(#cat, 2), no())", "and": "and(every.e(#cat, 2), yes())"}


def every_oracle(f1, f2, f3, f4, wrap="plain"):
    fs = [f1, f2, f3, f4]
    seen = {}
    votes = {}
    ret = []
    incr = []
    m = 0
    for i in range(4):
        c = _cat(fs[i])
        seen[c] = seen.get(c, 0) + 1
        hit = seen[c] % 2 == 0
        votes[hit] = votes.get(hit, 0) + 1
        if hit != (wrap == "not"):
            ret.append(i + 1)
    return (ret, seen)


@ob(
    "C03",
    "O4-every",
    post="_ == every_oracle(f1, f2, f3, f4, wrap)",
    bound="4 data lines, category by symbolic bools; every.e(#cat, 2) alone and as the argument of not()/or()/and() (shards): returned lines "
    "and the value counts kept under the qualifier name - every line is counted once however often the enclosing function asks "
    "(docs/functions/every.md also describes a second vote-count variable which this version does not keep: not compared)",
    encodes=ENC_RUN + ["csvpath/matching/functions/counting/every.py", "csvpath/matching/functions/boolean/notf.py", "csvpath/matching/functions/boolean/orf.py", "csvpath/matching/functions/boolean/andf.py"],
    tiers={"quick": {"timeout": 600, "shards": product(wrap=list(EVERY_WRAP))}},
)
def every_run(f1: bool, f2: bool, f3: bool, f4: bool, wrap: str = "plain") -> Tuple[List[int], Dict[str, int]]:
    recs = [["cat"], [_cat(f1)], [_cat(f2)], [_cat(f3)], [_cat(f4)]]
    p, pr = fresh('$SYM[1*][ %s ]' % EVERY_WRAP[wrap], recs)
    got = [p.line_monitor.physical_line_number for _ in p.next()]
    v = p.variables
    return (got, dict(v.get("e") or {}))


# ------------------------------------------------------------------ tracking-keyed assignment, one step
from harness.c14_assign import build, assign_oracle  # noqa: E402


def tracking_oracle(latch, onchange, increase, decrease, notnone, has, cur, o, y):
    c = cur if has else None
    new, vote = assign_oracle(False, latch, onchange, increase, decrease, notnone, False, False, c, y, True)
    d = {"o": o}
    if has or new is not None or (new is None and not (latch or onchange or increase or decrease or notnone)):
        d["k"] = new
    return d


@ob(
    "C03",
    "O5-tracking-step",
    pre=["{LO} <= cur <= {HI} and {LO} <= o <= {HI}", "y is None or {LO} <= y <= {HI}", "not (increase and decrease)"],
    post="dict_eq(_, tracking_oracle(latch, onchange, increase, decrease, notnone, has, cur, o, y))",
    bound="one real _consider_line of '@x.k.<qualifiers> = @y' where x already holds another key o (and key k iff `has`); qualifier "
    "subset of latch/onchange/increase/decrease/notnone symbolic; values symbolic ints LO..HI, y Optional",
    outside="onmatch/asbool/nocontrib on tracking-keyed variables (covered for plain variables by C14)",
    encodes=["csvpath/matching/productions/equality.py:Equality._do_assignment (tracking) /_set_variable_if", "csvpath/csvpath.py:CsvPath.set_variable/get_variable (tracking dicts)"],
    tiers={"quick": {"timeout": 900, "K": {"LO": -2, "HI": 3}, "shards": product(latch=[False, True], onchange=[False, True])},
           "thorough": {"timeout": 2400, "K": {"LO": -2, "HI": 11}, "shards": product(latch=[False, True], onchange=[False, True], has=[False, True])}},
)
def tracking_step(latch: bool, onchange: bool, increase: bool, decrease: bool, notnone: bool, has: bool, cur: int, o: int, y: Optional[int]) -> Dict[str, Optional[int]]:
    p, pr, eq = build('$SYM[*][ @x = @y  @m.asbool ]', [False, latch, onchange, increase, decrease, notnone, False, False], tracking="k")
    d = {"o": o}
    if has:
        d["k"] = cur
    p.variables["x"] = d
    if y is not None:
        p.variables["y"] = y
    p.variables["m"] = True
    p.track_line(["h"])
    p._consider_line(["h"])
    return dict(p.variables.get("x"))


def dict_eq(a, b) -> bool:
    """equal up to a key whose value is None (an unset tracking key may or may not be materialised)"""
    ka = set(k for k in a if a[k] is not None)
    kb = set(k for k in b if b[k] is not None)
    return ka == kb and all(a[k] == b[k] for k in ka)


# ------------------------------------------------------------------ boolean-keyed tracking values read back on the same line
def boolkey_oracle(t):
    pf, pg = [], []
    kt = kf = None
    for i in range(4):
        if i > t:
            kt = (kt or 0) + 1
        else:
            kf = (kf or 0) + 1
        pf.append(kf)
        pg.append(kt)
    d = {}
    if kt is not None:
        d[True] = kt
    if kf is not None:
        d[False] = kf
    return (pf, pg, d)


@ob(
    "C03",
    "O6-bool-keyed-tracking",
    pre=["-1 <= t <= 4"],
    post="_ == boolkey_oracle(t)",
    bound="4 lines; count.k(gt(line_number(), @t)) keeps {True: n, False: m}; '@f = @k.False  @g = @k.True' read both keys back on "
    "every line (docs/variables.md: a boolean tracking value is found through its name); threshold t symbolic",
    outside="more than 4 lines",
    encodes=ENC_RUN + ["csvpath/matching/productions/variable.py:Variable.to_value (True/False tracking)", "csvpath/matching/functions/counting/count.py:Count._get_contained_value"],
    tiers={"quick": {"timeout": 600}},
)
def boolkey_run(t: int) -> Tuple[List[Optional[int]], List[Optional[int]], Dict[bool, int]]:
    p, pr = fresh('$SYM[*][ count.k(gt(line_number(), @t)) @f = @k.False  @g = @k.True  push("pf", @f) push("pg", @g) ]', [["0"], ["1"], ["2"], ["3"]])
    p.variables["t"] = t
    p.fast_forward()
    v = p.variables
    return (list(v.get("pf", [])), list(v.get("pg", [])), dict(v.get("k") or {}))


# ------------------------------------------------------------------ a named, onmatch sum used as a value
def namedsum_oracle(t, g1, g2, g3):
    gs = [g1, g2, g3]
    total = 0
    for i in range(3):
        if t > i + 1:  # the line matches: the sum grows by its number
            total += _num(gs[i])
    return (total, total)


@ob(
    "C03",
    "O7-named-onmatch-sum",
    pre=["2 <= t <= 5"],
    post="_ == namedsum_oracle(t, g1, g2, g3)",
    bound="3 data lines with number 2 or 10 (symbolic choice); '@running = sum.received.onmatch(#num)' where the lines before a "
    "symbolic threshold match (so the run may end on lines that do not match): after the run both the variable assigned from the "
    "function and the function's own named variable hold the sum over the matching lines (docs/functions/sum.md)",
    outside="the value read by a later component of the same line (the onmatch look-ahead evaluates it before the assignment); more than 3 data lines",
    encodes=ENC_RUN + ["csvpath/matching/functions/math/sum.py:Sum._produce_value/_apply_default_value"],
    tiers={"quick": {"timeout": 600}},
)
def namedsum_run(t: int, g1: bool, g2: bool, g3: bool) -> Tuple[float, float]:
    recs = [["num"], [str(_num(g1))], [str(_num(g2))], [str(_num(g3))]]
    p, pr = fresh('$SYM[1*][ @running = sum.received.onmatch(#num)  gt(@t, line_number()) ]', recs)
    p.variables["t"] = t
    p.fast_forward()
    v = p.variables
    return (v.get("running"), v.get("received"))
