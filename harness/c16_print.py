"""C16 - print() emits its text verbatim with references replaced by current values.

O1 (transformer): a representative print string of each arrangement is parsed by the real Lark
   print grammar (natively); the TEXT / SENTINEL token values are then replaced by symbolic
   strings (lark Tokens keep the concrete placeholder as their str part; the callbacks read
   .value only) and the real LarkPrintTransformer + PrintParser._to_string run on that tree.
   Expected: the input with every reference replaced and every other character in place.
   "Shape of the representative = shape of every instance" is re-checked by the native replay
   of any counterexample, which parses the concrete string with the real grammar.
O2 (reference lookup): PrintParser._ref_from_dict/_ref_from_list with symbolic values, tracking
   keys, indexes and 'length'.
O3 (run): print.onmatch prints only on matching lines, print.once at most once per run, with
   and without a named printer.
"""
from typing import Dict, List, Optional, Tuple

from crosshair.tracers import NoTracing
from lark.lexer import Token
from lark.tree import Tree

from vp.kit import fresh, CapPrinter
from vp.ob import ob, product
from csvpath import CsvPath
from csvpath.matching.util.lark_print_parser import LarkPrintParser, LarkPrintTransformer
from csvpath.matching.util.print_parser import PrintParser

ENC = ["csvpath/matching/util/lark_print_parser.py:LarkPrintTransformer.TEXT/WS/SENTINEL/name/reference/printed",
       "csvpath/matching/util/print_parser.py:PrintParser._to_string/_handle_replacement/_handle_local/_transform_reference/_ref_from_dict/_ref_from_list"]


CHUNK = "aZ9_.,;:!#(-'/"
SEPS = "!^:,;%()-+@#{}[]&<>/|?'"


def chunk_ok(t, n) -> bool:
    """a text chunk over CHUNK: letters, digits, underscore, dot and punctuation (no '$', '"', white space)"""
    return 1 <= len(t) <= n and all(c in CHUNK for c in t)


def sep_ok(s) -> bool:
    """the character right after a reference: any character that cannot continue a reference name
    (the grammar's SIMPLE_NAME excludes exactly these); '.' continues the name, '..' is the escape"""
    return len(s) == 1 and s in SEPS


def _skeleton(template):
    with NoTracing():
        return LarkPrintParser().parse(template)


def _subst(tree, mapping):
    counters = {}

    def walk(t):
        if isinstance(t, Tree):
            return Tree(t.data, [walk(c) for c in t.children])
        k = counters.get(t.type, 0)
        counters[t.type] = k + 1
        nt = Token(t.type, t.value)
        v = mapping.get((t.type, k))
        if v is not None:
            nt.value = v
        return nt

    return walk(tree)


def _render(tree):
    with NoTracing():
        p = CsvPath(print_default=False)
        p.logger.disabled = True
    p.variables = {"a": "A", "b": "B"}
    pp = PrintParser(csvpath=p)
    ts = LarkPrintTransformer(p).transform(tree)
    return pp._to_string(ts)


# arrangement -> (representative, mapping builder, expected builder); x, y text chunks, s, t separators
ARR = {
    # text, white space, reference, separator, text
    "T_R_sT": ("xx $.variables.a,yy", lambda x, y, s, t: {("TEXT", 0): x, ("SENTINEL", 0): s, ("TEXT", 1): y}, lambda x, y, s, t: x + " A" + s + y + " "),
    # reference at the start, then separator and text
    "R_sT": ("$.variables.a,yy", lambda x, y, s, t: {("SENTINEL", 0): s, ("TEXT", 0): y}, lambda x, y, s, t: "A" + s + y + " "),
    # text directly followed by a reference at the end of the string
    "TR": ("xx$.variables.a", lambda x, y, s, t: {("TEXT", 0): x}, lambda x, y, s, t: x + "A"),
    # two references separated by one character, then separator and text
    "R_s_R_tT": ("$.variables.a,$.variables.b;yy", lambda x, y, s, t: {("SENTINEL", 0): s, ("SENTINEL", 1): t, ("TEXT", 0): y}, lambda x, y, s, t: "A" + s + "B" + t + y + " "),
    # reference, separator, white space, text
    "R_s_W_T": ("$.variables.a, yy", lambda x, y, s, t: {("SENTINEL", 0): s, ("TEXT", 0): y}, lambda x, y, s, t: "A" + s + " " + y + " "),
    # the print string itself ends in a blank: after a reference, after text
    "TR_": ("xx$.variables.a ", lambda x, y, s, t: {("TEXT", 0): x}, lambda x, y, s, t: x + "A" + "  "),
    "T_": ("xx ", lambda x, y, s, t: {("TEXT", 0): x}, lambda x, y, s, t: x + "  "),
    # text, reference, separator, text, reference, separator at the end
    "TRsTRt": ("xx$.variables.a,yy$.variables.b;", lambda x, y, s, t: {("TEXT", 0): x, ("SENTINEL", 0): s, ("TEXT", 1): y, ("SENTINEL", 1): t}, lambda x, y, s, t: x + "A" + s + y + "B" + t + " "),
}


@ob(
    "C16",
    "O1-arrangements",
    pre=["chunk_ok(x, {N}) and chunk_ok(y, {N})", "sep_ok(s) and sep_ok(t)"],
    post="_ == ARR[arr][2](x, y, s, t)",
    bound="arrangements of text chunks, white space and $.variables references (start, end, adjacent to text, separated by one "
    "character, two references); text chunks x,y symbolic (1..N characters over CHUNK = letters, digit, _ . , ; : ! # ( - ' /), "
    "separator characters s,t symbolic over SEPS (every character that ends a reference name)",
    outside="chunks longer than N; more than two references; the '..' escape (O1-escape)",
    encodes=ENC,
    tiers={"quick": {"timeout": 900, "K": {"N": 2}, "shards": product(arr=list(ARR))}, "thorough": {"timeout": 3000, "K": {"N": 3}, "shards": product(arr=list(ARR))}},
)
def arrangement(arr: str, x: str, y: str, s: str, t: str) -> str:
    rep, mk, _exp = ARR[arr]
    tree = _subst(_skeleton(rep), mk(x, y, s, t))
    return _render(tree)


TEXT_OF = {
    "T_R_sT": lambda x, y, s, t: x + " $.variables.a" + s + y,
    "R_sT": lambda x, y, s, t: "$.variables.a" + s + y,
    "TR": lambda x, y, s, t: x + "$.variables.a",
    "R_s_R_tT": lambda x, y, s, t: "$.variables.a" + s + "$.variables.b" + t + y,
    "R_s_W_T": lambda x, y, s, t: "$.variables.a" + s + " " + y,
    "TRsTRt": lambda x, y, s, t: x + "$.variables.a" + s + y + "$.variables.b" + t,
    "TR_": lambda x, y, s, t: x + "$.variables.a ",
    "T_": lambda x, y, s, t: x + " ",
}


def native_arrangement(arr, x, y, s, t):
    """native replay: the concrete print string goes through the real Lark grammar and PrintParser.transform"""
    p = CsvPath(print_default=False)
    p.logger.disabled = True
    p.variables = {"a": "A", "b": "B"}
    return PrintParser(csvpath=p).transform(TEXT_OF[arr](x, y, s, t))


def native_escape(y):
    p = CsvPath(print_default=False)
    p.logger.disabled = True
    p.variables = {"a": "A", "b": "B"}
    return PrintParser(csvpath=p).transform("$.variables.a.." + y)


@ob(
    "C16",
    "O1-escape",
    pre=["chunk_ok(y, {N})"],
    post="_ == 'A.' + y + ' '",
    bound="'$.variables.a..<text>': the '..' escape yields a literal dot after the value; text symbolic",
    encodes=ENC,
    tiers={"quick": {"timeout": 600, "K": {"N": 2}}},
)
def escape(y: str) -> str:
    tree = _subst(_skeleton("$.variables.a..yy"), {("TEXT", 0): y})
    return _render(tree)


# ------------------------------------------------------------------ O2 reference lookup
def _pp():
    with NoTracing():
        p = CsvPath(print_default=False)
        p.logger.disabled = True
    return PrintParser(csvpath=p)


@ob(
    "C16",
    "O2-ref-dict",
    pre=["-3 <= v <= 3 and -3 <= w <= 3", "0 <= i <= 3"],
    post="_ == (v, w, ([v, w][i] if i < 2 else ''), 2, 0, v)",
    bound="_ref_from_dict: a tracking-keyed value v, a stack [v, w] indexed by symbolic i, its length, the length of an empty "
    "stack, a plain value; v, w symbolic ints -3..3 (0 and other falsy values included)",
    encodes=ENC,
    tiers={"quick": {"timeout": 600}},
)
def ref_dict(v: int, w: int, i: int) -> Tuple[int, int, object, int, int, int]:
    pp = _pp()
    data = {"d": {"k": v, "o": w}, "st": [v, w], "e": [], "p": v}
    ref = {"root": "$.", "data_type": "variables", "name": ["d", "k"]}
    return (
        pp._ref_from_dict(ref, data, "d", "k"),
        pp._ref_from_dict(ref, data, "d", "o"),
        pp._ref_from_dict(ref, data, "st", str(i)),
        pp._ref_from_dict(ref, data, "st", "length"),
        pp._ref_from_dict(ref, data, "e", "length"),
        pp._ref_from_dict(ref, data, "p", None),
    )


# ------------------------------------------------------------------ O3 onmatch / once
NREC = 5


def once_oracle(k, named):
    lines = list(range(NREC))
    m = [i for i in lines if i > k]
    return (["m %d" % i for i in m], 1 if len(lines) > 0 else 0, 1 if len(m) > 0 else 0)


@ob(
    "C16",
    "O3-onmatch-once",
    pre=["{KLO} <= k <= {KHI}"],
    post="_ == once_oracle(k, named)",
    bound="5 stub records, match threshold k symbolic; print.onmatch with a $.csvpath.line_number reference prints exactly on "
    "the matching lines, with the value of that line; print.once prints once per run; print.once.onmatch once iff some line "
    "matches; with the default printer and with a named printer (second argument)",
    encodes=["csvpath/matching/functions/print/printf.py:Print._decide_match", "csvpath/matching/productions/qualified.py:Qualified.do_once/do_onmatch/_set_has_happened",
             "csvpath/matching/util/runtime_data_collector.py:RuntimeDataCollector.collect"] + ENC,
    tiers={"quick": {"timeout": 900, "K": {"KLO": -1, "KHI": 5}, "shards": product(named=[False, True])}},
)
def onmatch_once(named: bool, k: int) -> Tuple[List[str], int, int]:
    tgt = ', "audit"' if named else ""
    text = '$SYM[*][ gt(line_number(), @k) print.onmatch("m $.csvpath.line_number"%s) print.once("o"%s) print.once.onmatch("om"%s) ]' % (tgt, tgt, tgt)
    p, pr = fresh(text, [[str(i)] for i in range(NREC)])
    p.variables["k"] = k
    p.fast_forward()
    out = [x[1] if isinstance(x, tuple) else x for x in pr.lines]
    if named and not all(isinstance(x, tuple) and x[0] == "audit" for x in pr.lines):
        out.append("not sent to the named printer")
    return ([x for x in out if x.startswith("m ")], len([x for x in out if x == "o"]), len([x for x in out if x == "om"]))


# ------------------------------------------------------------------ O4 every reference kind in a run
KINDS_TEXT = 'print("v=$.variables.p, k=$.variables.d.k; i=$.variables.st.1! n=$.variables.st.length? h=$.headers.b, x=$.headers.1; d=$.headers.a, m=$.metadata.note, l=$.csvpath.line_number; c=$.csvpath.count_lines; e")'


CELLS = ["a!", "Z", "9-", "_"]


def kinds_oracle(v, w, c1, c2):
    out = []
    # the file holds a blank record between the two data lines: physical lines 1 and 3
    for ln, cell in ((1, CELLS[c1]), (3, CELLS[c2])):
        out.append("v=%s, k=%s; i=%s! n=2? h=%s, x=%s; d=%s, m=hello, l=%d; c=%d; e" % (v, w, w, cell, cell, "1" if ln == 1 else "2", ln, ln + 1))
    return out


@ob(
    "C16",
    "O4-reference-kinds",
    pre=["{VLO} <= v <= {VHI} and 0 <= w <= {VHI}", "0 <= c1 < 4 and 0 <= c2 < 4"],
    post="_ == kinds_oracle(v, w, c1, c2)",
    bound="one print string with every local reference kind ($.variables.x, .x.key, .stack.index, .stack.length, $.headers.name, "
    "$.headers.index, $.metadata.key, $.csvpath.line_number, $.csvpath.count_lines) separated by literal text, executed on 2 data lines with a blank record between them; variable values "
    "symbolic ints VLO..VHI, the referenced cell of each line picked by a symbolic index from 4 texts (symbolic cell strings cost 128 000 "
    "solver queries without finishing: measured, abandoned): every "
    "entry carries the values current on its line and every other character unchanged",
    outside="remote references ($name...); cells with white space (header values are not trimmed by print)",
    encodes=ENC + ["csvpath/matching/functions/print/printf.py:Print._decide_match", "csvpath/matching/util/runtime_data_collector.py:RuntimeDataCollector.collect"],
    tiers={"quick": {"timeout": 900, "K": {"VLO": -1, "VHI": 1}, "shards": product(c1=[0, 1, 2, 3])},
           "thorough": {"timeout": 3000, "K": {"VLO": -2, "VHI": 2}, "shards": product(c1=[0, 1, 2, 3])}},
)
def reference_kinds(v: int, w: int, c1: int, c2: int) -> List[str]:
    p, pr = fresh('~ note: hello ~ $SYM[1*][ %s ]' % KINDS_TEXT, [["a", "b", "a"], ["1", "x", "q"], [], ["2", "y", "r"]])
    from vp.kit import StubReader

    # the header name 'a' is repeated: $.headers.a is the first column of that name
    StubReader.RECORDS = [["a", "b", "a"], ["1", CELLS[c1], "q"], [], ["2", CELLS[c2], "r"]]
    p.variables["p"] = v
    p.variables["d"] = {"k": w}
    p.variables["st"] = [v, w]
    p.fast_forward()
    return list(pr.lines)


CELLCH = "aZ9_-!"


def cell_ok(c) -> bool:
    return 1 <= len(c) <= 2 and all(ch in CELLCH for ch in c)
