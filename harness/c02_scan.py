"""C02 - the scan part selects exactly the lines it denotes.

O1 (kernel): the real PLY productions of csvpath.scanning.scanner.Scanner are driven with
the token stream the real lexer produces for a representative of each scan shape; the
NUMBER token values are replaced by symbolic ints.  Then Scanner.includes(line) and
Scanner.is_last(line) are asked about a symbolic line.
O2 (run): a real CsvPath.next() over stub records with symbolic blank flags; the scanner
of the parsed path is re-loaded through the same symbolic token stream.
"""
from typing import List, Tuple

from crosshair.tracers import NoTracing

from vp import kit
from vp.kit import fresh, StubReader
from vp.ob import ob, product
from csvpath import CsvPath
from csvpath.scanning.scanner import Scanner
from csvpath.scanning.scanning_lexer import ScanningLexer

ENC = [
    "csvpath/scanning/scanner.py:Scanner.p_path/p_expression/p_term/_add_two_lines/_collect_a_line_range/"
    "_collect_a_line_number/_move_range_to_these/_add_range_to_these",
    "csvpath/scanning/scanner.py:Scanner.includes",
    "csvpath/scanning/scanner.py:Scanner.is_last",
]

# shape = '+'-joined terms; N = line number (ascending), M = line number in any order, R = forward range, V = lone range written backwards
SHAPES_Q = ["*", "N*", "N", "R", "V", "N+N", "R+N", "N+R", "N+N+N", "R+R", "M+M+M"]
SHAPES_T = SHAPES_Q + ["R+N+N", "N+R+N", "N+N+R", "R+R+N", "R+N+R", "N+R+R", "N+N+N+N"]


def _terms(shape):
    return shape.split("+")


def nints(shape):
    if shape == "*":
        return 0
    if shape == "N*":
        return 1
    return sum(2 if t in ("R", "V") else 1 for t in _terms(shape))


def render(shape, ns):
    if shape == "*":
        return "$SYM[*]"
    if shape == "N*":
        return f"$SYM[{ns[0]}*]"
    out = []
    i = 0
    for t in _terms(shape):
        if t in ("N", "M"):
            out.append(f"{ns[i]}")
            i += 1
        else:
            out.append(f"{ns[i]}-{ns[i + 1]}")
            i += 2
    return "$SYM[" + "+".join(out) + "]"


def shape_pre(shape, n0, n1, n2, n3, n4, n5, hi) -> bool:
    """the property's quantifier: bounds 0..hi, terms ascending and non-overlapping,
    ranges forward (V: a lone range written backwards)"""
    ns = [n0, n1, n2, n3, n4, n5]
    k = nints(shape)
    for j in range(k, 6):
        if ns[j] != 0:
            return False
    for j in range(k):
        if not (0 <= ns[j] <= hi):
            return False
    if shape in ("*", "N*"):
        return True
    i = 0
    prev_end = -1
    for t in _terms(shape):
        if t == "M":
            # line numbers in any order, pairwise different (beyond the property's ascending lists; docs: '+' is a union)
            for j in range(i):
                if ns[j] == ns[i]:
                    return False
            i += 1
        elif t == "N":
            if not ns[i] > prev_end:
                return False
            prev_end = ns[i]
            i += 1
        elif t == "R":
            if not (ns[i] > prev_end and ns[i] <= ns[i + 1]):
                return False
            prev_end = ns[i + 1]
            i += 2
        else:  # V
            if not ns[i] >= ns[i + 1]:
                return False
            i += 2
    return True


def denotes(shape, n0, n1, n2, n3, n4, n5, line) -> bool:
    ns = [n0, n1, n2, n3, n4, n5]
    if shape == "*":
        return line >= 0
    if shape == "N*":
        return line >= ns[0]
    i = 0
    for t in _terms(shape):
        if t in ("N", "M"):
            if line == ns[i]:
                return True
            i += 1
        else:
            lo, hi = ns[i], ns[i + 1]
            if lo > hi:
                lo, hi = hi, lo
            if lo <= line <= hi:
                return True
            i += 2
    return False


def max_denoted(shape, n0, n1, n2, n3, n4, n5):
    """largest denoted line of a finite shape"""
    ns = [n0, n1, n2, n3, n4, n5]
    return max(ns[: nints(shape)])


class _Lex:
    def __init__(self, toks):
        self.toks = list(toks)
        self.i = 0

    def token(self):
        if self.i < len(self.toks):
            t = self.toks[self.i]
            self.i += 1
            return t
        return None

    def input(self, data):
        pass


def load_scanner(p, shape, ns):
    """A fresh real Scanner whose productions consume the real lexer's tokens for a
    representative of `shape` with the NUMBER values replaced by ns (possibly symbolic)."""
    with NoTracing():
        rep = render(shape, [1, 2, 4, 5, 7, 8] if shape != "V" else [2, 1])
        s = Scanner(csvpath=p)
        toks = list(s.lexer.tokenize(rep))
        nums = [t for t in toks if t.type == "NUMBER"]
        assert len(nums) == nints(shape), (rep, [t.type for t in toks])
    for t, v in zip(nums, ns):
        t.value = v
    s.path = rep
    s.parser.parse(rep, lexer=_Lex(toks))
    return s


@ob(
    "C02",
    "O1-productions",
    pre=["shape_pre(shape, n0, n1, n2, n3, n4, n5, {HI})", "0 <= line <= {HI} + 1"],
    post="_[0] == denotes(shape, n0, n1, n2, n3, n4, n5, line) and "
    "(shape in ('*', 'N*') or not _[1] or line >= max_denoted(shape, n0, n1, n2, n3, n4, n5))",
    bound="scan shapes listed as shards (terms N=number, R=forward range, V=lone backward range); every NUMBER 0..HI "
    "symbolic, line 0..HI+1 symbolic; HI=12 (N<=10 records, bounds 0..N+2)",
    outside="lexer regexes (digits->int) run only on the representative; shapes with more than 4 terms",
    encodes=ENC,
    tiers={
        "quick": {"timeout": 240, "K": {"HI": 12}, "shards": product(shape=SHAPES_Q)},
        "thorough": {"timeout": 900, "K": {"HI": 12}, "shards": product(shape=SHAPES_T)},
    },
)
def scan_kernel(shape: str, n0: int, n1: int, n2: int, n3: int, n4: int, n5: int, line: int) -> Tuple[bool, bool]:
    with NoTracing():
        p = CsvPath(print_default=False)
    s = load_scanner(p, shape, [n0, n1, n2, n3, n4, n5])
    inc = s.includes(line)
    if shape in ("*", "N*"):
        return (inc, False)
    return (inc, s.is_last(line))


# ------------------------------------------------------------------ O2 run level
NREC = 7


def run_oracle(shape, n0, n1, n2, n3, n4, n5, b1, b2, b3, b4, b5, b6, b0=False):
    blanks = [b0, b1, b2, b3, b4, b5, b6]
    want = [i for i in range(NREC) if not blanks[i] and denotes(shape, n0, n1, n2, n3, n4, n5, i)]
    return (want, len(want), want)


@ob(
    "C02",
    "O2-run",
    pre=["shape_pre(shape, n0, n1, n2, n3, n4, n5, {HI})"],
    post="_ == run_oracle(shape, n0, n1, n2, n3, n4, n5, b1, b2, b3, b4, b5, b6, b0)",
    bound="7 stub records, records 0..6 blank or not by symbolic flags (a blank first record included; some flags fixed per shard); scan numbers "
    "0..HI symbolic through the real productions; csvpath [yes() push(line_number())]; observed: returned lines (by their "
    "line-number cell), scan_count, line numbers pushed by the match part",
    outside="files with more than 7 records",
    encodes=ENC + ["csvpath/csvpath.py:CsvPath.next/_next_line/_consider_line/track_line", "csvpath/util/line_monitor.py:LineMonitor.next_line/is_last_line_and_blank"],
    tiers={
        # quick: 3 symbolic blank flags (interior b1, b3 and trailing b6), the others fixed False
        "quick": {"timeout": 900, "K": {"HI": 8}, "shards": product(shape=["*", "N*", "R"], b0=[False], b2=[False], b4=[False], b5=[False]) + product(shape=["R+N"], b0=[False], b1=[False, True], b2=[False], b4=[False], b5=[False])
                  + product(shape=["N*", "R"], b0=[True], b1=[False], b2=[False], b4=[False], b5=[False])},
        "thorough": {"timeout": 3000, "K": {"HI": 9},
                     "shards": product(shape=["*", "N*", "N", "V", "N+N"], b0=[False, True]) + product(shape=["R", "R+N", "N+R"], b0=[False], b1=[False, True], b2=[False, True], b3=[False, True])},
    },
)
def scan_run(shape: str, n0: int, n1: int, n2: int, n3: int, n4: int, n5: int,
             b1: bool, b2: bool, b3: bool, b4: bool, b5: bool, b6: bool, b0: bool = False) -> Tuple[List[int], int, List[int]]:
    blanks = [b0, b1, b2, b3, b4, b5, b6]
    recs = [[] if blanks[i] else [str(i)] for i in range(NREC)]
    p, pr = fresh('$SYM[*][ yes() push("s", line_number()) ]', recs)
    p.scanner = load_scanner(p, shape, [n0, n1, n2, n3, n4, n5])
    got = [int(l[0]) for l in p.next()]
    return (got, p.scan_count, list(p.variables.get("s", [])))


# ------------------------------------------------------------------ O3 a second parse() replaces the scan part
REPARSE = {"1>3": ("[1]", "[3]", [3]), "1-2>5": ("[1-2]", "[5]", [5]), "*>2": ("[*]", "[2]", [2]), "2>0-1": ("[2]", "[0-1]", [0, 1]), "3>*": ("[3]", "[*]", [0, 1, 2, 3, 4, 5, 6])}


def reparse_oracle(pair, b1, b2, b3, b5):
    blanks = [False, b1, b2, b3, False, b5, False]
    want = [i for i in REPARSE[pair][2] if not blanks[i]]
    return (want, len(want))


@ob(
    "C02",
    "O3-reparse",
    post="_ == reparse_oracle(pair, b1, b2, b3, b5)",
    bound="one CsvPath instance parses a csvpath and then a second one with a different scan part (pairs per shard), then runs over "
    "7 stub records with symbolic blank flags: the lines offered are those the second scan part denotes",
    outside="other pairs of scan parts",
    encodes=ENC + ["csvpath/csvpath.py:CsvPath.parse (a fresh Scanner per parse)"],
    tiers={"quick": {"timeout": 600, "shards": product(pair=list(REPARSE))}},
)
def reparse_run(pair: str, b1: bool, b2: bool, b3: bool, b5: bool) -> Tuple[List[int], int]:
    blanks = [False, b1, b2, b3, False, b5, False]
    recs = [[] if blanks[i] else [str(i)] for i in range(NREC)]
    first, second, _ = REPARSE[pair]
    p, pr = fresh("$SYM%s[ yes() ]" % first, recs)
    with NoTracing():
        p.parse("$SYM%s[ yes() ]" % second)
    got = [int(l[0]) for l in p.next()]
    return (got, p.scan_count)
