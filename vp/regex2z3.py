"""Python regular expressions (as used by Lark terminals) -> z3 regular languages.
Unmodelled constructs raise Unmodelled (the query is then inconclusive)."""
import z3

try:
    import re._parser as sre_parse
    import re._constants as C
except ImportError:  # pragma: no cover
    import sre_parse
    import sre_constants as C


class Unmodelled(Exception):
    pass


def _allchar():
    return z3.AllChar(z3.ReSort(z3.StringSort()))


def rx(pattern):
    return _seq(sre_parse.parse(pattern))


def _seq(items):
    parts = [_node(op, av) for op, av in items]
    if not parts:
        return z3.Re("")
    r = parts[0]
    for x in parts[1:]:
        r = z3.Concat(r, x)
    return r


def _charset(av):
    neg = False
    alts = []
    for op, a in av:
        if op == C.NEGATE:
            neg = True
        elif op == C.LITERAL:
            alts.append(z3.Re(chr(a)))
        elif op == C.RANGE:
            alts.append(z3.Range(chr(a[0]), chr(a[1])))
        elif op == C.CATEGORY:
            if a == C.CATEGORY_DIGIT:
                alts.append(z3.Range("0", "9"))
            elif a == C.CATEGORY_SPACE:
                alts.append(z3.Union(*[z3.Re(c) for c in " \t\n\r\f\v"]))
            else:
                raise Unmodelled(f"category {a}")
        else:
            raise Unmodelled(f"charset op {op}")
    u = alts[0] if len(alts) == 1 else z3.Union(*alts)
    if neg:
        return z3.Intersect(_allchar(), z3.Complement(u))
    return u


def _node(op, av):
    if op == C.LITERAL:
        return z3.Re(chr(av))
    if op == C.NOT_LITERAL:
        return z3.Intersect(_allchar(), z3.Complement(z3.Re(chr(av))))
    if op == C.ANY:
        return z3.Intersect(_allchar(), z3.Complement(z3.Re("\n")))
    if op == C.IN:
        return _charset(av)
    if op == C.SUBPATTERN:
        return _seq(av[3])
    if op == C.BRANCH:
        return z3.Union(*[_seq(b) for b in av[1]])
    if op in (C.MAX_REPEAT, C.MIN_REPEAT):
        lo, hi, sub = av
        r = _seq(sub)
        if lo == 0 and hi == C.MAXREPEAT:
            return z3.Star(r)
        if lo == 1 and hi == C.MAXREPEAT:
            return z3.Plus(r)
        if lo == 0 and hi == 1:
            return z3.Option(r)
        if hi == C.MAXREPEAT:
            return z3.Concat(z3.Loop(r, lo, lo), z3.Star(r))
        return z3.Loop(r, lo, hi)
    raise Unmodelled(f"regex op {op}")
