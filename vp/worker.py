"""One (obligation, tier, shard) in one process:  python -m vp.worker <spec.json> <out.json>

spec: {module, prop, name, tier, shard (dict), carve (list of predicate strings), seed}
out : {twin, verdict, message, cex, stats..., wall_s}
"""
import importlib
import inspect
import json
import os
import random
import sys
import time
import traceback

t_import = time.time()
from vp import shims  # noqa: E402  (must precede harness imports)
from vp import kit  # noqa: E402
from vp import ob as _ob  # noqa: E402

from crosshair.core_and_libs import analyze_function, AnalysisKind  # noqa: E402
from crosshair.options import AnalysisOptionSet  # noqa: E402


def gen_wrapper_source(o, cfg, shard, carve, twin):
    K = cfg.get("K", {})
    sig = inspect.signature(o.fn)
    params = []
    call = []
    shard = dict(shard)
    for pname, p in sig.parameters.items():
        if pname not in shard and p.default is not inspect.Parameter.empty:
            shard[pname] = p.default  # a parameter with a default is symbolic only if a shard says nothing else: it is fixed
    for pname, p in sig.parameters.items():
        if pname in shard:
            call.append(f"{pname}={shard[pname]!r}")
        else:
            ann = inspect.formatannotation(p.annotation)
            params.append(f"{pname}: {ann}")
            call.append(f"{pname}={pname}")
    lines = []
    lines.append("from typing import *")
    lines.append(f"from {o.module} import *")
    lines.append(f"import {o.module} as _h")
    for k, v in shard.items():
        lines.append(f"{k} = {v!r}")
    lines.append(f"def obligation_({', '.join(params)}):")
    lines.append('    """')
    for pr in o.pre:
        lines.append("    pre: " + pr.format(**K))
    for c in carve:
        lines.append(f"    pre: not ({c})")
    lines.append("    post: " + ("False" if twin else o.post.format(**K)))
    lines.append('    """')
    lines.append(f"    return _h.{o.fn.__name__}({', '.join(call)})")
    return "\n".join(lines) + "\n"


def load_generated(src, tag):
    d = os.path.join(kit.workdir(), "gen")
    os.makedirs(d, exist_ok=True)
    path = os.path.join(d, f"{tag}.py")
    with open(path, "w") as f:
        f.write(src)
    import importlib.util

    spec = importlib.util.spec_from_file_location(tag, path)
    mod = importlib.util.module_from_spec(spec)
    sys.modules[tag] = mod
    spec.loader.exec_module(mod)
    return mod


def run_crosshair(fn, timeout):
    for k in shims.STATS:
        shims.STATS[k] = 0
    del shims.LAST_CEX[:]
    opts = AnalysisOptionSet(
        per_condition_timeout=timeout,
        per_path_timeout=timeout,
        report_all=True,
        analysis_kind=[AnalysisKind.PEP316],
        max_uninteresting_iterations=10**9,
    )
    t = time.time()
    msgs = []
    for c in analyze_function(fn, opts):
        msgs += c.analyze()
    wall = time.time() - t
    order = ["POST_FAIL", "EXEC_ERR", "POST_ERR", "PRE_UNSAT", "CANNOT_CONFIRM", "CONFIRMED"]
    states = [m.state.name for m in msgs]
    verdict = "NO_CONDITIONS"
    pick = None
    for s in order:
        if s in states:
            verdict = s
            pick = msgs[states.index(s)]
            break
    res = {
        "verdict": verdict,
        "message": (pick.message if pick else "")[:2000],
        "traceback": ((pick.traceback or "") if pick else "")[-3000:],
        "cex": shims.LAST_CEX[-1] if (shims.LAST_CEX and verdict in ("POST_FAIL", "EXEC_ERR", "POST_ERR")) else None,
        "wall_s": round(wall, 2),
    }
    res.update({k: (round(v, 3) if isinstance(v, float) else v) for k, v in shims.STATS.items()})
    return res


def trace_functions(o, shard, cex):
    """csvpath functions executed by a native run of the harness on the reachability witness."""
    seen = set()

    def prof(frame, event, arg):
        if event == "call":
            fn = frame.f_code.co_filename
            if "/csvpath/" in fn and "/site-packages/" not in fn:
                seen.add(fn.split("/csvpath/", 1)[1] + ":" + frame.f_code.co_qualname)

    args = dict(shard)
    args.update(cex)
    sig = inspect.signature(o.fn)
    call = {k: args[k] for k in sig.parameters if k in args}
    try:
        sys.setprofile(prof)
        try:
            o.fn(**call)
        finally:
            sys.setprofile(None)
    except BaseException as e:
        return {"count": len(seen), "error": repr(e)[:200], "names": sorted(seen)[:60]}
    return {"count": len(seen), "names": sorted(seen)[:60]}


def main():
    spec = json.load(open(sys.argv[1]))
    out_path = sys.argv[2]
    random.seed(spec.get("seed", 0))
    out = {"spec": spec, "import_s": None}
    try:
        importlib.import_module(spec["module"])
        out["import_s"] = round(time.time() - t_import, 2)
        o = _ob.find(spec["prop"], spec["name"])
        cfg = o.tier_cfg(spec["tier"])
        shard = spec.get("shard") or {}
        if o.kind == "query":
            t = time.time()
            r = o.fn(tier=spec["tier"], cfg=cfg, shard=shard, carve=spec.get("carve") or [])
            r.setdefault("wall_s", round(time.time() - t, 2))
            out.update(r)
        else:
            tag = f"gen_{spec['prop']}_{abs(hash(spec['name'])) % 10**8}_{os.getpid()}"
            carve = spec.get("carve") or []
            src_twin = gen_wrapper_source(o, cfg, shard, carve, twin=True)
            src_main = gen_wrapper_source(o, cfg, shard, carve, twin=False)
            out["wrapper"] = src_main
            mt = load_generated(src_twin, tag + "_t")
            twin = run_crosshair(mt.obligation_, min(cfg.get("twin_timeout", 120), cfg["timeout"]))
            out["twin"] = {k: twin[k] for k in ("verdict", "cex", "wall_s", "paths", "z3_queries", "z3_s")}
            if twin["verdict"] == "POST_FAIL" and twin["cex"] is not None:
                out["functions_executed"] = trace_functions(o, shard, twin["cex"])
            if twin["verdict"] == "POST_FAIL":
                mm = load_generated(src_main, tag + "_m")
                out.update(run_crosshair(mm.obligation_, cfg["timeout"]))
            elif twin["verdict"] in ("EXEC_ERR", "POST_ERR") and twin["cex"] is not None:
                # the harness itself raises on a reachable input: a counterexample candidate (replayed natively by the driver)
                out.update({"verdict": "EXEC_ERR", "message": "the harness raises: " + twin["message"][:700], "traceback": twin.get("traceback", ""),
                            "cex": twin["cex"], "wall_s": twin["wall_s"], "paths": twin["paths"], "z3_queries": twin["z3_queries"],
                            "z3_s": twin["z3_s"], "z3_unknown": twin["z3_unknown"]})
            else:
                out.update({"verdict": "VACUOUS", "message": "reachability twin not refuted: " + twin["verdict"] + " " + twin["message"][:500],
                            "traceback": twin.get("traceback", ""), "cex": None, "wall_s": twin["wall_s"], "paths": twin["paths"],
                            "z3_queries": twin["z3_queries"], "z3_s": twin["z3_s"], "z3_unknown": twin["z3_unknown"]})
    except BaseException as e:  # engine error: inconclusive
        out.update({"verdict": "ENGINE_ERROR", "message": repr(e)[:1000], "traceback": traceback.format_exc()[-3000:], "cex": None})
    with open(out_path, "w") as f:
        json.dump(out, f, default=repr)


if __name__ == "__main__":
    main()
