"""Shims S1-S10 (DESIGN.md 1.1): configuration of CrossHair + harness-side stubs of
csvpath's environment.  Nothing here edits /repo; everything is monkeypatching inside
the checking process.  Import this module before any harness module.
"""
import os
import sys
import time as _time

import crosshair.core as _cc
from crosshair.core_and_libs import analyze_function, AnalysisKind  # noqa: F401 (loads libimpl)
from crosshair.libimpl import builtinslib as _bl
from crosshair.tracers import NoTracing, ResumedTracing, is_tracing as _is_tracing
import z3 as _z3

from vp.shims_list import SHIMS  # noqa: F401

# ---------------------------------------------------------------- counters
STATS = {"paths": 0, "z3_queries": 0, "z3_s": 0.0, "z3_unknown": 0}
LAST_CEX = []

_orig_check = _z3.Solver.check


def _counted_check(self, *a):
    t = _time.perf_counter()
    try:
        r = _orig_check(self, *a)
    finally:
        STATS["z3_s"] += _time.perf_counter() - t
        STATS["z3_queries"] += 1
    if r == _z3.unknown:
        STATS["z3_unknown"] += 1
    return r


_z3.Solver.check = _counted_check

_orig_attempt = _cc.attempt_call


def _attempt_call(*a, **k):
    STATS["paths"] += 1
    return _orig_attempt(*a, **k)


_cc.attempt_call = _attempt_call

_orig_mcm = _cc.make_counterexample_message


def _mcm(conditions, args, return_val=None):
    msg = _orig_mcm(conditions, args, return_val)
    try:
        with NoTracing():
            LAST_CEX.append(dict(_cc.deep_realize(dict(args.arguments))))
    except Exception as e:  # pragma: no cover
        LAST_CEX.append({"__unreadable__": repr(e)})
    return msg


_cc.make_counterexample_message = _mcm

# ---------------------------------------------------------------- S1
_orig_cs = _cc.consider_shortcircuit


def _cs(fn, sig, bound, subconditions, allow_interpretation=True):
    if allow_interpretation:
        return None
    return _orig_cs(fn, sig, bound, subconditions, allow_interpretation=allow_interpretation)


_cc.consider_shortcircuit = _cs


# ---------------------------------------------------------------- S2
class LazyStr(_bl.AnySymbolicStr, _cc.CrossHairValue):
    """str(container) whose text is computed only if somebody looks at it."""

    def __init__(self, thunk):
        self._thunk = thunk
        self._v = None

    def _f(self):
        if self._v is None:
            if _is_tracing():
                self._v = self._thunk()
            else:
                # forced from inside a CrossHair intercept (e.g. f-string assembly): resume tracing for the repr
                with ResumedTracing():
                    self._v = self._thunk()
        return self._v

    def __ch_realize__(self):
        return _cc.realize(self._f())

    def __str__(self):
        return self._f()

    def __repr__(self):
        return repr(self._f())

    def __len__(self):
        return len(self._f())

    def __getitem__(self, i):
        return self._f()[i]

    def __eq__(self, o):
        return self._f() == o

    def __ne__(self, o):
        return self._f() != o

    def __hash__(self):
        return hash(self._f())

    def __contains__(self, o):
        return o in self._f()

    def __add__(self, o):
        # stays lazy: f-strings are assembled by a CrossHair intercept that runs with tracing off
        return LazyStr(lambda: self._f() + (o._f() if isinstance(o, LazyStr) else o))

    def __radd__(self, o):
        return LazyStr(lambda: (o._f() if isinstance(o, LazyStr) else o) + self._f())

    def __iter__(self):
        return iter(self._f())

    def __getattr__(self, name):
        if name.startswith("_"):
            raise AttributeError(name)
        return getattr(self._f(), name)


def _str(*a):
    with NoTracing():
        if len(a) == 1:
            (self,) = a
            if isinstance(self, _bl.AnySymbolicStr):
                return self
            t = type(self)
            if t in (list, tuple, dict, set, frozenset):
                snap = t(self)

                def thunk():
                    return repr(snap)

                return LazyStr(thunk)
            with ResumedTracing():
                return _bl.invoke_dunder(self, "__str__")
        return str(*a)


_cc._PATCH_REGISTRATIONS[str] = _str

# ---------------------------------------------------------------- S3
_orig_format = _cc._PATCH_REGISTRATIONS[format]


def _format(obj, format_spec=""):
    with NoTracing():
        if isinstance(format_spec, _bl.AnySymbolicStr):
            format_spec = _cc.realize(format_spec)
        if format_spec in ("", "s"):
            if isinstance(obj, _bl.AnySymbolicStr):
                return obj
            tf = getattr(type(obj), "__format__", None)
            if (
                isinstance(obj, _cc.CrossHairValue)
                or tf is object.__format__
                or type(obj) in (int, bool, float, str, list, tuple, dict, type(None))
            ):
                with ResumedTracing():
                    return str(obj)
    return _orig_format(obj, format_spec)


_cc._PATCH_REGISTRATIONS[format] = _format

# ---------------------------------------------------------------- S7
import datetime as _dt

for _e in (_dt.timezone, _dt.date, _dt.time, _dt.datetime, _dt.timedelta):
    _cc._PATCH_REGISTRATIONS.pop(_e, None)

# ---------------------------------------------------------------- S8
_orig_md_get = _bl.ModelingDirector.get


def _md_get(self, typ):
    if typ is float:
        return _bl.RealBasedSymbolicFloat
    return _orig_md_get(self, typ)


_bl.ModelingDirector.get = _md_get

# CrossHair caps the verdict of any path that touched a real-modelled float at UNKNOWN (reals are
# not IEEE floats).  Every float in these harnesses is float(int) with |int| <= 2**53, combined by
# +, -, *, %, comparison only (stated per obligation), where real arithmetic is exact; so the cap is
# lifted.  Divide/round results are outside every claim.
from crosshair.statespace import StateSpace as _StateSpace

_StateSpace.cap_result_at_unknown = lambda self: None

# ---------------------------------------------------------------- S9
import json as _json


def _realizing(fn):
    def w(*a, **k):
        with NoTracing():
            a2 = _cc.deep_realize(a)
            k2 = _cc.deep_realize(k)
            return fn(*a2, **k2)

    return w


for _fn in (_json.dump, _json.dumps):
    _cc._PATCH_REGISTRATIONS[_fn] = _realizing(_fn)

# ---------------------------------------------------------------- S4'
from crosshair import register_contract as _rc

for _n in (
    "time",
    "time_ns",
    "monotonic",
    "monotonic_ns",
    "perf_counter",
    "perf_counter_ns",
    "process_time",
    "process_time_ns",
):
    _f = getattr(_time, _n, None)
    if _f is not None:
        _rc.REGISTERED_CONTRACTS.pop(_f, None)

if os.environ.get("VERIF_CHDEBUG"):
    from crosshair.util import set_debug

    set_debug(True)
