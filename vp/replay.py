"""Native replay of a counterexample (no tracing, real functions):
    python -m vp.replay <replay.json> [--json]
replay.json: {property, obligation, module, tier, shard, args}
exit 0: the property holds on that input; exit 1: violation reproduced; exit 3: unusable.
"""
import importlib
import inspect
import json
import sys
import traceback


def evaluate(rec):
    from vp import kit  # noqa: F401  (stubs; no tracing active)
    from vp import ob as _ob

    mod = importlib.import_module(rec["module"])
    o = _ob.find(rec["property"], rec["obligation"])
    cfg = o.tier_cfg(rec.get("tier", "quick")) or {}
    K = cfg.get("K", {})
    args = dict(rec.get("shard") or {})
    args.update(rec["args"])
    if o.kind == "query":
        rf = getattr(mod, "replay_" + o.fn.__name__)
        violates, detail = rf(rec["args"])
        return {"pre_ok": True, "violates": bool(violates), "detail": str(detail)[:3000]}
    ns = dict(vars(mod))
    import typing

    ns.update({k: getattr(typing, k) for k in ("List", "Optional", "Tuple", "Dict")})
    ns.update(args)
    sig = inspect.signature(o.fn)
    call = {k: args[k] for k in sig.parameters if k in args}
    for pr in o.pre:
        try:
            ok = eval(pr.format(**K), ns)
        except Exception as e:
            return {"pre_ok": False, "violates": False, "detail": f"pre raised {e!r}"}
        if not ok:
            return {"pre_ok": False, "violates": False, "detail": f"pre false: {pr}"}
    fn = getattr(mod, "native_" + o.fn.__name__, o.fn)  # optional: a native path through the public entry point
    try:
        ret = fn(**call)
    except Exception as e:
        return {"pre_ok": True, "violates": True, "detail": "harness raised " + repr(e) + "\n" + traceback.format_exc()[-1500:]}
    ns["_"] = ret
    ns["__return__"] = ret
    try:
        ok = eval(o.post.format(**K), ns)
    except Exception as e:
        return {"pre_ok": True, "violates": True, "detail": f"post raised {e!r}; returned {ret!r}"}
    return {"pre_ok": True, "violates": not ok, "detail": f"returned {ret!r}; post: {o.post.format(**K)}"}


def main():
    rec = json.load(open(sys.argv[1]))
    try:
        r = evaluate(rec)
    except Exception as e:
        r = {"pre_ok": False, "violates": False, "detail": "replay error " + repr(e) + traceback.format_exc()[-1500:], "error": True}
    print("REPLAY " + json.dumps(r, default=repr))
    if r.get("error") or not r["pre_ok"]:
        sys.exit(3)
    sys.exit(1 if r["violates"] else 0)


if __name__ == "__main__":
    main()
