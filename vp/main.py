"""./check <ID> [--tier quick|thorough] [--only substr] [--jobs N]   |   ./check --replay <file>

exit 0  every obligation discharged (KNOWN-FINDING lines allowed)
exit 1  a reproduced, unlisted counterexample: line "VIOLATION property=<id> replay=<path>"
exit 3  inconclusive (time-out, solver unknown, vacuous harness, engine error, cex that does not replay)
"""
import argparse
import glob
import hashlib
import importlib
import json
import os
import shutil
import subprocess
import sys
import time
from concurrent.futures import ThreadPoolExecutor

VERIF = os.path.dirname(os.path.dirname(os.path.abspath(__file__)))
PY = os.path.join(VERIF, ".venv", "bin", "python")
if not os.path.exists(PY) and os.path.exists("/verif/.venv/bin/python"):
    PY = "/verif/.venv/bin/python"  # a snapshot of /verif (vp run) has no venv of its own: use /verif's
SCRATCH = os.path.join(VERIF, ".scratch")


def sweep_scratch():
    os.makedirs(SCRATCH, exist_ok=True)
    for d in os.listdir(SCRATCH):
        p = os.path.join(SCRATCH, d)
        pid = None
        if d.startswith("w") and d[1:].isdigit():
            pid = int(d[1:])
        elif d.startswith("job") and d[3:].split("_")[0].isdigit():
            pid = int(d[3:].split("_")[0])
        if pid is not None and os.path.exists(f"/proc/{pid}"):
            continue
        shutil.rmtree(p, ignore_errors=True)


def ensure_env():
    if not os.path.exists(PY):
        subprocess.run([os.path.join(VERIF, "setup.sh")], check=True, stdout=subprocess.DEVNULL)


def child_env():
    env = dict(os.environ)
    env["PYTHONPATH"] = VERIF
    if os.environ.get("VERIF_REPO"):
        # internal use (seed evaluation in a scratch worktree): import csvpath from there instead of /repo
        env["PYTHONPATH"] = VERIF + os.pathsep + os.environ["VERIF_REPO"]
    env["PYTHONHASHSEED"] = "0"
    env.pop("CSVPATH_CONFIG_PATH", None)
    env["PYTHONDONTWRITEBYTECODE"] = "1"
    return env


def load_property(prop):
    sys.path.insert(0, VERIF)
    from vp import ob as _ob

    mods = sorted(glob.glob(os.path.join(VERIF, "harness", prop.lower() + "_*.py")))
    for m in mods:
        importlib.import_module("harness." + os.path.basename(m)[:-3])
    return _ob.REGISTRY.get(prop, [])


def run_replay(rec_path):
    p = subprocess.run([PY, "-m", "vp.replay", rec_path], cwd=VERIF, env=child_env(), capture_output=True, text=True, timeout=1800)
    detail = ""
    for line in p.stdout.splitlines():
        if line.startswith("REPLAY "):
            detail = line[7:]
    return p.returncode, detail or (p.stdout[-500:] + p.stderr[-1500:])


def write_replay(prop, o, tier, shard, args, tag):
    rec = {"property": prop, "obligation": o.name, "module": o.module, "tier": tier, "shard": shard, "args": args}
    h = hashlib.sha1(json.dumps(rec, sort_keys=True, default=repr).encode()).hexdigest()[:10]
    path = os.path.join(VERIF, "replays", f"{prop}-{o.name}-{tag}-{h}.json")
    os.makedirs(os.path.dirname(path), exist_ok=True)
    with open(path, "w") as f:
        json.dump(rec, f, default=repr, indent=1)
    return path


def run_job(job):
    spec, hard = job
    d = os.path.join(SCRATCH, f"job{os.getpid()}_{spec['idx']}")
    os.makedirs(d, exist_ok=True)
    sp = os.path.join(d, "spec.json")
    op = os.path.join(d, "out.json")
    with open(sp, "w") as f:
        json.dump(spec, f)
    t = time.time()
    try:
        p = subprocess.run([PY, "-m", "vp.worker", sp, op], cwd=VERIF, env=child_env(), capture_output=True, text=True, timeout=hard)
        if os.path.exists(op):
            out = json.load(open(op))
        else:
            out = {"verdict": "ENGINE_ERROR", "message": "worker wrote no result", "traceback": (p.stdout[-1000:] + p.stderr[-3000:]), "cex": None}
    except subprocess.TimeoutExpired:
        out = {"verdict": "CANNOT_CONFIRM", "message": f"hard time-out {hard}s", "cex": None}
    out["job_wall_s"] = round(time.time() - t, 2)
    out["spec"] = spec
    shutil.rmtree(d, ignore_errors=True)
    return out


def main():
    ap = argparse.ArgumentParser()
    ap.add_argument("prop", nargs="?")
    ap.add_argument("--tier", default=os.environ.get("VERIF_TIER", "quick"))
    ap.add_argument("--only", default=None)
    ap.add_argument("--jobs", type=int, default=int(os.environ.get("VERIF_JOBS", "0")) or (os.cpu_count() or 4))
    ap.add_argument("--replay", default=None)
    ap.add_argument("--no-evidence", action="store_true")
    a = ap.parse_args()
    ensure_env()
    if a.replay:
        rc, detail = run_replay(os.path.abspath(a.replay))
        print(detail)
        if rc == 1:
            rec = json.load(open(a.replay))
            print(f"VIOLATION property={rec['property']} replay={a.replay}")
        sys.exit(rc)
    if not a.prop:
        ap.error("property id required")
    prop = a.prop.upper()
    tier = a.tier if a.tier in ("quick", "thorough") else "quick"
    seed = int(os.environ.get("VERIF_SEED", "0") or 0)
    t0 = time.time()
    sweep_scratch()
    obs = load_property(prop)
    from vp import findings as _fd
    from vp import evidence as _ev

    if not obs:
        print(f"INCONCLUSIVE {prop} no obligations registered")
        sys.exit(3)
    # ---- known findings: a listed finding is carved out only while its witness still fails
    active = {}
    kf_lines = []
    for f in _fd.known_for(prop):
        try:
            o = next(o for o in obs if o.name == f["obligation"])
        except StopIteration:
            print(f"NOTE listed finding {f['id']} names unknown obligation {f['obligation']}")
            continue
        rp = write_replay(prop, o, f.get("tier", "quick"), f.get("shard") or {}, f["witness"], "known-" + f["id"])
        rc, detail = run_replay(rp)
        if rc == 1:
            active.setdefault(o.name, []).append(f)
            kf_lines.append(f"KNOWN-FINDING: property={prop} {f['id']}: {f['what']}")
        else:
            print(f"NOTE listed finding {f['id']} does not reproduce on this tree (rc={rc}); no carve-out applied")
    for line in kf_lines:
        print(line)
    # ---- jobs
    jobs = []
    skipped = []
    idx = 0
    for o in obs:
        if a.only and a.only not in o.name:
            continue
        cfg = o.tier_cfg(tier)
        if cfg is None:
            continue
        carve = [f["predicate"] for f in active.get(o.name, []) if f.get("predicate")]
        for shard in o.shards(tier):
            # a listed finding that makes a whole shard fail (every input of that arrangement) is not carved out by a
            # predicate (the harness would become vacuous): the shard is skipped while its witness still fails
            sk = [f for f in active.get(o.name, []) if f.get("skip_shard") and all(shard.get(k) == v for k, v in f["skip_shard"].items())]
            if sk:
                skipped.append({"obligation": o.name, "shard": shard, "known_finding": sk[0]["id"]})
                continue
            spec = {"module": o.module, "prop": prop, "name": o.name, "tier": tier, "shard": shard, "carve": carve, "seed": seed, "idx": idx}
            hard = cfg["timeout"] * 1.25 + cfg.get("twin_timeout", 120) + 180
            jobs.append((spec, hard))
            idx += 1
    # longest first
    jobs.sort(key=lambda j: -j[1])
    results = []
    with ThreadPoolExecutor(max_workers=a.jobs) as ex:
        for out in ex.map(run_job, jobs):
            results.append(out)
            s = out["spec"]
            print(f"  [{out.get('verdict')}] {s['name']} shard={s['shard']} paths={out.get('paths')} z3q={out.get('z3_queries')} z3_s={out.get('z3_s')} wall={out.get('job_wall_s')}s", flush=True)
    # ---- verdicts
    violations = []
    inconclusive = []
    for out in results:
        s = out["spec"]
        o = next(o for o in obs if o.name == s["name"])
        v = out.get("verdict")
        if v in ("CONFIRMED", "UNSAT"):
            out["final"] = "discharged"
            continue
        if v in ("POST_FAIL", "EXEC_ERR", "POST_ERR", "SAT") and out.get("cex") is not None:
            rp = write_replay(prop, o, tier, s["shard"], out["cex"], "cex")
            rc, detail = run_replay(rp)
            out["replay"] = {"path": rp, "rc": rc, "detail": detail[:1500]}
            if rc == 1:
                out["final"] = "violation"
                violations.append((rp, o, out, detail))
            else:
                out["final"] = "inconclusive"
                inconclusive.append((o, s, f"counterexample did not reproduce natively (rc={rc}): {detail[:300]}"))
            continue
        out["final"] = "inconclusive"
        inconclusive.append((o, s, f"{v}: {str(out.get('message'))[:300]}"))
    for o, s, why in inconclusive:
        print(f"INCONCLUSIVE {prop} {o.name} shard={s['shard']} {why}")
        tb = next((r.get("traceback") for r in results if r["spec"] is s), None)
        if tb and os.environ.get("VERIF_VERBOSE"):
            print(tb)
    for rp, o, out, detail in violations:
        print(f"  counterexample {o.name}: args={out['cex']} :: {detail[:400]}")
        print(f"VIOLATION property={prop} replay={os.path.relpath(rp, VERIF)}")
    wall = time.time() - t0
    if not a.no_evidence and not a.only:
        _ev.write(prop, tier, seed, obs, results, kf_lines, wall, len(violations), skipped)
    print(f"{prop} tier={tier}: {sum(1 for r in results if r.get('final') == 'discharged')}/{len(results)} obligations discharged, "
          f"{len(violations)} violation(s), {len(inconclusive)} inconclusive, wall {wall:.0f}s")
    if violations:
        sys.exit(1)
    if inconclusive:
        sys.exit(3)
    sys.exit(0)


if __name__ == "__main__":
    main()
