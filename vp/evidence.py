"""Evidence writer: /verif/evidence/<ID>.json (level "other" + explanation, with the
obligation/discharged and exploration-style counts measured on this run)."""
import json
import os

VERIF = os.path.dirname(os.path.dirname(os.path.abspath(__file__)))


def write(prop, tier, seed, obs, results, kf_lines, wall, nviol, skipped=()):
    from vp import shims_list

    per = []
    tot_paths = tot_q = 0
    tot_z3 = 0.0
    nontrivial = 0
    samples = []
    discharged = 0
    for r in results:
        s = r["spec"]
        o = next(o for o in obs if o.name == s["name"])
        cfg = o.tier_cfg(tier) or {}
        K = cfg.get("K", {})
        paths = int(r.get("paths") or 0) + int((r.get("twin") or {}).get("paths") or 0)
        q = int(r.get("z3_queries") or 0) + int((r.get("twin") or {}).get("z3_queries") or 0)
        z3s = float(r.get("z3_s") or 0) + float((r.get("twin") or {}).get("z3_s") or 0)
        tot_paths += paths
        tot_q += q
        tot_z3 += z3s
        if r.get("final") == "discharged":
            discharged += 1
            # non-trivial: a discharged obligation whose exploration needed >= 2 solver decisions
            if q >= 2:
                nontrivial += 1
        try:
            pre = [p.format(**K) for p in o.pre]
            post = o.post.format(**K)
        except Exception:
            pre, post = o.pre, o.post
        entry = {
            "obligation": o.name,
            "engine": "crosshair+z3" if o.kind == "crosshair" else r.get("engine", "z3 query"),
            "shard": s["shard"],
            "pre": pre,
            "post": post,
            "known_finding_carve_outs": s.get("carve") or [],
            "bound": o.bound,
            "outside": o.outside,
            "encodes": o.encodes,
            "verdict": r.get("verdict"),
            "final": r.get("final"),
            "paths": int(r.get("paths") or 0),
            "z3_queries": int(r.get("z3_queries") or 0),
            "z3_s": float(r.get("z3_s") or 0),
            "wall_s": r.get("job_wall_s"),
            "timeout_s": cfg.get("timeout"),
            "reachability_witness": (r.get("twin") or {}).get("cex", r.get("witness")),
            "repo_functions_executed_by_witness": r.get("functions_executed"),
        }
        if r.get("extra"):
            entry["extra"] = r["extra"]
        if r.get("replay"):
            entry["replay"] = r["replay"]
        if r.get("final") != "discharged":
            entry["message"] = str(r.get("message"))[:600]
        per.append(entry)
        w = entry["reachability_witness"]
        if w is not None and len(samples) < 12:
            samples.append({"obligation": o.name, "shard": s["shard"], "input": w})
    if not samples:
        samples = [{"obligation": p["obligation"], "shard": p["shard"]} for p in per[:5]] or [{"note": "no obligations ran"}]
    ev = {
        "property_id": prop,
        "tier": tier,
        "seed": seed,
        "level": "other",
        "coverage": {
            "explanation": (
                "Solver-based bounded checking of the real code. Each obligation is a harness over csvpath's own "
                "functions (imported from /repo's working tree on this run) with symbolic inputs; CrossHair executes it "
                "path by path and z3 decides every branch and the final assertion; an obligation is discharged only when "
                "all feasible paths inside the stated bound are confirmed (or, for generated solver queries, the negated "
                "property is unsat). A reachability twin (post: False) must be refuted first, so vacuous harnesses are "
                "reported as inconclusive. Counterexamples are replayed natively before being reported."
            ),
            "obligations": len(results),
            "discharged": discharged,
            "evaluations": max(tot_paths + tot_q, 1),
            "distinct_nontrivial": nontrivial,
            "rule": "evaluations = symbolic paths explored + solver queries issued (measured by wrapping CrossHair's "
            "attempt_call and z3.Solver.check); distinct_nontrivial = discharged (obligation, shard) pairs whose "
            "exploration issued at least 2 solver queries (each pair is a distinct harness/bound).",
            "paths": tot_paths,
            "solver_queries": tot_q,
            "solver_s": round(tot_z3, 2),
            "samples": samples,
            "exhaustive": False,
            "per_obligation": per,
            "known_findings_reported": kf_lines,
            "shards_skipped_for_known_findings": list(skipped),
            "trusted_base": ["CrossHair 0.0.110 proxies", "z3 5.1.0"] + shims_list.SHIMS + ["harness oracles (harness/*.py)"],
        },
        "assumptions": [
            "bounds are those listed per obligation (pre/bound/outside); nothing is claimed outside them",
            "csvpath text is concrete (templates); the csv module and the file system are environment",
        ],
        "wall_s": round(wall, 2),
        "violations": nviol,
    }
    os.makedirs(os.path.join(VERIF, "evidence"), exist_ok=True)
    with open(os.path.join(VERIF, "evidence", f"{prop}.json"), "w") as f:
        json.dump(ev, f, indent=1, default=repr)
