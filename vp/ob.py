"""Obligation registry.  A harness module declares obligations with @ob(...); the driver
generates, per (obligation, tier, shard), a wrapper function with a PEP-316 docstring
(pre/post from the declaration, known-finding carve-outs, fixed shard parameters) and
hands it to CrossHair.  kind="query" obligations build and discharge their own solver
queries (E2/E3) and return a result dict.
"""
import inspect
from dataclasses import dataclass, field
from typing import Any, Callable, Dict, List, Optional

REGISTRY: Dict[str, List["Obligation"]] = {}


@dataclass
class Obligation:
    prop: str
    name: str
    fn: Callable
    pre: List[str]
    post: str
    bound: str
    encodes: List[str]
    tiers: Dict[str, Dict[str, Any]]
    kind: str = "crosshair"
    findings: List[str] = field(default_factory=list)
    outside: str = ""

    @property
    def module(self) -> str:
        return self.fn.__module__

    def tier_cfg(self, tier: str) -> Optional[Dict[str, Any]]:
        if tier in self.tiers:
            return self.tiers[tier]
        if tier == "thorough" and "quick" in self.tiers:
            return self.tiers["quick"]
        return None

    def shards(self, tier: str) -> List[Dict[str, Any]]:
        cfg = self.tier_cfg(tier)
        sh = cfg.get("shards") or [{}]
        return sh


def ob(prop, name, *, pre=(), post="True", bound="", encodes=(), tiers=None, kind="crosshair",
       findings=(), outside=""):
    """tiers: {"quick": {"timeout": s, "K": {placeholders}, "shards": [ {param: const}, ... ]},
    "thorough": {...}}.  pre/post may use {PLACEHOLDER}s filled from K."""
    if isinstance(pre, str):
        pre = [pre]
    tiers = tiers or {"quick": {"timeout": 120}}

    def deco(fn):
        o = Obligation(prop, name, fn, list(pre), post, bound, list(encodes), tiers, kind,
                       list(findings), outside)
        REGISTRY.setdefault(prop, []).append(o)
        fn.__obligation__ = o
        return fn

    return deco


def product(**axes):
    """Cartesian product of shard axes -> list of dicts."""
    out = [{}]
    for k, vals in axes.items():
        out = [dict(d, **{k: v}) for d in out for v in vals]
    return out


def find(prop, name):
    for o in REGISTRY.get(prop, []):
        if o.name == name:
            return o
    raise KeyError((prop, name))
