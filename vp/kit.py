"""Harness kit (DESIGN.md 1.3): a real CsvPath on a stub reader, capture printer,
constant clock, external functions that return harness-held symbolic values, scratch
working directory with a private config.ini.  Import after vp.shims.
"""
import os
import shutil
import sys
import atexit

from crosshair.tracers import NoTracing

VERIF = os.path.dirname(os.path.dirname(os.path.abspath(__file__)))
SCRATCH_ROOT = os.path.join(VERIF, ".scratch")

CONFIG_INI = """[csvpath_files]
extensions = txt, csvpath, csvpaths

[csv_files]
extensions = txt, csv, tsv, dat, tab, psv, ssv

[errors]
csvpath = collect, fail, print
csvpaths = raise, collect

[logging]
csvpath = error
csvpaths = error
log_file = logs/csvpath.log
log_files_to_keep = 1
log_file_size = 52428800

[config]
path = config/config.ini

[cache]
path = cache

[listeners]

[functions]
imports = config/functions.imports

[results]
archive = archive
transfers = transfers

[inputs]
files = inputs/named_files
csvpaths = inputs/named_paths
on_unmatched_file_fingerprints = halt
"""

_WORKDIR = None


def workdir() -> str:
    """Per-process scratch cwd holding config/config.ini; removed at exit."""
    global _WORKDIR
    if _WORKDIR is None:
        d = os.path.join(SCRATCH_ROOT, f"w{os.getpid()}")
        os.makedirs(os.path.join(d, "config"), exist_ok=True)
        os.makedirs(os.path.join(d, "logs"), exist_ok=True)
        with open(os.path.join(d, "config", "config.ini"), "w") as f:
            f.write(CONFIG_INI)
        with open(os.path.join(d, "config", "functions.imports"), "w") as f:
            f.write("")
        os.chdir(d)
        os.environ.pop("CSVPATH_CONFIG_PATH", None)
        _WORKDIR = d
        atexit.register(_cleanup)
    return _WORKDIR


def _cleanup():
    if _WORKDIR and os.path.isdir(_WORKDIR):
        try:
            os.chdir(VERIF)
        except Exception:
            pass
        shutil.rmtree(_WORKDIR, ignore_errors=True)


workdir()

from csvpath import CsvPath  # noqa: E402
from csvpath.matching.matcher import Matcher  # noqa: E402
from csvpath.util.file_readers import DataFileReader  # noqa: E402

# ---------------------------------------------------------------- S5
_orig_minit = Matcher.__init__


def _minit(self, *a, **k):
    with NoTracing():
        _orig_minit(self, *a, **k)


Matcher.__init__ = _minit

_orig_cinit = CsvPath.__init__


def _cinit(self, *a, **k):
    with NoTracing():
        _orig_cinit(self, *a, **k)
        try:
            self.logger.disabled = True  # S10
        except Exception:
            pass


CsvPath.__init__ = _cinit


# ---------------------------------------------------------------- S6
class StubReader:
    RECORDS = None
    READS = 0
    LOG = []  # keyword arguments (dialect) every reader instance was created with

    def __init__(self, path, **kw):
        self.path = path
        self.kw = kw
        StubReader.LOG.append(kw)

    def next(self):
        StubReader.READS += 1
        for r in StubReader.RECORDS:
            yield r[:]


_orig_new = DataFileReader.__new__


def _new(cls, path, *a, **kw):
    if cls is DataFileReader and path == "SYM":
        return StubReader(path, **kw)
    return _orig_new(cls, path, *a, **kw)


DataFileReader.__new__ = _new


class CapPrinter:
    def __init__(self):
        self.lines = []
        self.last_line = None
        self.lines_printed = 0

    def print(self, s):
        self.lines.append(s)
        self.last_line = s
        self.lines_printed += 1

    def print_to(self, name, s):
        self.lines.append((name, s))
        self.last_line = s
        self.lines_printed += 1


# ---------------------------------------------------------------- S4
class _FakeTime:
    def time(self):
        return 0.0

    def perf_counter_ns(self):
        return 0

    def perf_counter(self):
        return 0.0


import csvpath.csvpath as _m1  # noqa: E402
import csvpath.matching.functions.function as _m2  # noqa: E402
import csvpath.util.line_counter as _m3  # noqa: E402

_ft = _FakeTime()
for _m in (_m1, _m2, _m3):
    if hasattr(_m, "time"):
        _m.time = _ft

_warm = CsvPath(print_default=False)


def _ini_with_policy(config_policy):
    """a second config file in the work dir whose [errors] csvpath policy is config_policy"""
    name = "config_" + "_".join(x.strip() for x in config_policy.split(",")) + ".ini"
    path = os.path.join(workdir(), "config", name)
    if not os.path.exists(path):
        with open(path, "w") as f:
            # no [config] path: that entry redirects the loader to the main file
            ini = CONFIG_INI.replace("csvpath = collect, fail, print", "csvpath = " + config_policy).replace("path = config/config.ini", "path =")
            assert ini.count("csvpath = " + config_policy) == 1 and "path = config/config.ini" not in ini
            f.write(ini)
    return path


def fresh(pathstr, records, policy=None, traced_parse=False, config_policy=None):
    """A real, parsed CsvPath over the stub reader.  With traced_parse the records may
    contain symbolic cells: construction is native, parse() (which counts lines and reads
    headers through the reader) runs traced."""
    StubReader.RECORDS = records
    if traced_parse:
        with NoTracing():
            p = CsvPath(print_default=False)
            pr = CapPrinter()
            p.add_printer(pr)
            if policy is not None:
                set_policy(p, policy)
        p.parse(pathstr)
        return p, pr
    with NoTracing():
        if config_policy is not None:
            # the policy the configuration file held when the CsvPath was created (it may be replaced afterwards)
            os.environ["CSVPATH_CONFIG_PATH"] = _ini_with_policy(config_policy)
        try:
            p = CsvPath(print_default=False)
        finally:
            os.environ.pop("CSVPATH_CONFIG_PATH", None)
        pr = CapPrinter()
        p.add_printer(pr)
        if policy is not None:
            set_policy(p, policy)
        p.parse(pathstr)
    return p, pr


def set_policy(p, policy):
    """the public way to change the policy of one csvpath: assign a new list to its config"""
    p.config.csvpath_errors_policy = list(policy)


# ---------------------------------------------------------------- channel 6
from csvpath.matching.functions.function_focus import ValueProducer  # noqa: E402
from csvpath.matching.functions.function_factory import FunctionFactory  # noqa: E402
from csvpath.matching.functions.args import Args  # noqa: E402

HOLD = {}


class SymVal(ValueProducer):
    def check_valid(self) -> None:
        self.args = Args(matchable=self)
        self.args.argset(0)
        self.args.validate(self.siblings())
        super().check_valid()

    def _produce_value(self, skip=None) -> None:
        self.value = HOLD[self.name]

    def _decide_match(self, skip=None) -> None:
        self.match = self.default_match()


def register(*names):
    for n in names:
        if n not in FunctionFactory.NOT_MY_FUNCTION:
            FunctionFactory.add_function(n, SymVal(None, n))


# ---------------------------------------------------------------- S11
# print(): the Lark grammar object is rebuilt by every print() execution and the (concrete)
# print string is parsed by Lark; both run natively when the string is a real str.  The
# transformer and reference substitution (which touch run-time values) stay traced.
from csvpath.matching.util.lark_print_parser import LarkPrintParser  # noqa: E402

_orig_lpp_init = LarkPrintParser.__init__
_orig_lpp_parse = LarkPrintParser.parse


def _lpp_init(self, *a, **k):
    with NoTracing():
        _orig_lpp_init(self, *a, **k)


def _lpp_parse(self, printstr):
    with NoTracing():
        if type(printstr) is str:
            return _orig_lpp_parse(self, printstr)
    return _orig_lpp_parse(self, printstr)


LarkPrintParser.__init__ = _lpp_init
LarkPrintParser.parse = _lpp_parse
