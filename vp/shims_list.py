"""Names of the shims (trusted base), importable without CrossHair."""
SHIMS = [
    "S1 consider_shortcircuit disabled for interpreted callees",
    "S2 str(list/tuple/dict/set) is a lazy symbolic string (traced repr on demand)",
    "S3 format(x,'') of ints/bools/None/containers/symbolics/default-__format__ objects = traced str(x)",
    "S4 CrossHair's symbolic clock contracts dropped; constant clock in csvpath.csvpath, function, line_counter",
    "S5 Matcher.__init__ (Lark), Scanner tables, CsvPath.__init__ run natively: csvpath text is concrete",
    "S6 DataFileReader('SYM') is a stub reader yielding the harness records (csv module = environment)",
    "S7 CrossHair's pure-python datetime model unregistered",
    "S8 floats made from ints are exact reals and CrossHair's UNKNOWN cap for real-modelled floats is lifted (sound for |x| <= 2**53 under + - * % and comparison)",
    "S9 json.dump(s) realise their arguments (C boundary)",
    "S10 loggers of harness-built CsvPath/CsvPaths objects disabled",
    "S11 LarkPrintParser construction and Lark parse of a concrete print string run natively",
]
