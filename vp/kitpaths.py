"""SymCsvPaths kit (DESIGN 1.3): a real CsvPaths in a per-path scratch directory (relative
config paths, real file system / json / csv / hashlib), created and removed natively.
Symbolic values reach member csvpaths through external functions registered with csvpath's
public FunctionFactory.add_function (vp.kit.register / HOLD) or through pre-set variables."""
import hashlib
import json
import os
import shutil

from crosshair.tracers import NoTracing

from vp import kit
from csvpath import CsvPaths
from csvpath.util.config import Config

DATA = 'h1,h2\n"a,1",b\nc,"d\ne"\nf,g\nh,i\n'  # 5 records: quoted delimiter, embedded newline
NDATA = 5
_N = [0]


def env(groups=None, policy=None, data=DATA, paths_policy=None, with_file=True):
    """-> (root, CsvPaths).  groups: {name: [csvpath text, ...]}.  Call natively (NoTracing)."""
    _N[0] += 1
    root = os.path.join(kit.workdir(), f"env{_N[0]}")
    os.makedirs(os.path.join(root, "config"))
    os.chdir(root)
    cfg_text = kit.CONFIG_INI
    if policy is not None:
        cfg_text = cfg_text.replace("csvpath = collect, fail, print", "csvpath = " + policy)
    if paths_policy is not None:
        cfg_text = cfg_text.replace("csvpaths = raise, collect", "csvpaths = " + paths_policy)
    with open("config/config.ini", "w") as f:
        f.write(cfg_text)
    with open("config/functions.imports", "w") as f:
        f.write("")
    with open("data.csv", "w") as f:
        f.write(data)
    cs = new_instance()
    if with_file:
        cs.file_manager.add_named_file(name="data", path="data.csv")
    for name, paths in (groups or {}).items():
        cs.paths_manager.add_named_paths(name=name, paths=paths)
    return root, cs


def new_instance():
    cfg = Config(load=False)
    cfg._configpath = "config/config.ini"
    cfg._load = True
    cfg._load_config()
    cs = CsvPaths(config=cfg, print_default=False)
    cs.logger.disabled = True
    return cs


def cleanup(root):
    os.chdir(kit.workdir())
    shutil.rmtree(root, ignore_errors=True)


def tree_digest(top):
    """{relative path: sha256} of every file under top"""
    out = {}
    for d, _dirs, files in os.walk(top):
        for fn in files:
            p = os.path.join(d, fn)
            with open(p, "rb") as f:
                out[os.path.relpath(p, top)] = hashlib.sha256(f.read()).hexdigest()
    return out


def result_lines(r):
    ls = r.lines
    if ls is None:
        return []
    if hasattr(ls, "next"):
        return [list(x) for x in ls.next()]
    return [list(x) for x in ls]


def plain_vars(vs):
    return {k: (list(v) if isinstance(v, (list, tuple)) else v) for k, v in vs.items() if not k.startswith("_")}


def read_json(path):
    with open(path) as f:
        return json.load(f)
