"""known_findings.json: genuine defects recorded rather than repaired (status "known"),
and repaired ones (status "fixed": documentation only, suppresses nothing).
Never written at run time."""
import json
import os

PATH = os.path.join(os.path.dirname(os.path.dirname(os.path.abspath(__file__))), "known_findings.json")


def load():
    if not os.path.exists(PATH):
        return []
    return json.load(open(PATH)).get("findings", [])


def known_for(prop):
    return [f for f in load() if f.get("property") == prop and f.get("status") == "known"]
