"""E3: translate loop-free Python methods (read with inspect, parsed with ast) into z3 terms with if-then-else path merging.
Unmodelled AST nodes raise NotImplementedError (the obligation is then inconclusive)."""
import ast, inspect, textwrap, z3

class OptInt:
    """Python value that is None or an int."""
    def __init__(self, isnone, val): self.isnone, self.val = isnone, val
    @staticmethod
    def fresh(name): return OptInt(z3.Bool(name + "_none"), z3.Int(name))
    @staticmethod
    def none(): return OptInt(z3.BoolVal(True), z3.IntVal(0))
    @staticmethod
    def of(i): return OptInt(z3.BoolVal(False), z3.IntVal(i) if isinstance(i, int) else i)

class Raise(Exception): pass

def truth(v):
    if isinstance(v, OptInt): return z3.And(z3.Not(v.isnone), v.val != 0)
    if isinstance(v, bool): return z3.BoolVal(v)
    if v is None: return z3.BoolVal(False)
    if z3.is_bool(v): return v
    raise NotImplementedError(f"truth of {v!r}")

def ite(c, a, b):
    if isinstance(a, OptInt) or isinstance(b, OptInt):
        a = a if isinstance(a, OptInt) else lift(a); b = b if isinstance(b, OptInt) else lift(b)
        return OptInt(z3.If(c, a.isnone, b.isnone), z3.If(c, a.val, b.val))
    return z3.If(c, tobool(a), tobool(b))
def lift(v):
    if v is None: return OptInt.none()
    if isinstance(v, OptInt): return v
    raise NotImplementedError
def tobool(v):
    if isinstance(v, bool): return z3.BoolVal(v)
    return v

class Frame:
    def __init__(self, interp, env, guard):
        self.interp, self.env, self.guard = interp, dict(env), guard
        self.returned = z3.BoolVal(False); self.ret = None

class Interp:
    def __init__(self, cls, handlers, state):
        self.cls, self.handlers, self.state = cls, handlers, state   # state: dict of effect vars
        self.errors = z3.BoolVal(False)   # a TypeError etc. would be raised
    def method_ast(self, name):
        src = textwrap.dedent(inspect.getsource(getattr(self.cls, name)))
        return ast.parse(src).body[0]
    def call_method(self, name, args, kwargs, guard):
        fn = self.method_ast(name)
        params = [a.arg for a in fn.args.args[1:]] + [a.arg for a in fn.args.kwonlyargs]
        defaults = {}
        pos = fn.args.args[1:]
        for a, d in zip(pos[len(pos)-len(fn.args.defaults):], fn.args.defaults): defaults[a.arg] = self.const(d)
        for a, d in zip(fn.args.kwonlyargs, fn.args.kw_defaults):
            if d is not None: defaults[a.arg] = self.const(d)
        env = dict(defaults)
        for p, v in zip([a.arg for a in pos], args): env[p] = v
        env.update(kwargs)
        fr = Frame(self, env, guard)
        self.block(fn.body, fr)
        return fr.ret
    def const(self, node):
        return ast.literal_eval(node)
    # statements -------------------------------------------------
    def block(self, stmts, fr):
        for s in stmts: self.stmt(s, fr)
    def active(self, fr): return z3.And(fr.guard, z3.Not(fr.returned))
    def stmt(self, s, fr):
        if isinstance(s, ast.Expr):
            if isinstance(s.value, ast.Constant): return   # docstring
            self.expr(s.value, fr, effect=True); return
        if isinstance(s, ast.Assign):
            v = self.expr(s.value, fr)
            t = s.targets[0]
            assert isinstance(t, ast.Name), ast.dump(t)
            old = fr.env.get(t.id)
            fr.env[t.id] = v if old is None or not self._mergeable(old, v) else ite(self.active(fr), v, old)
            return
        if isinstance(s, ast.If):
            c = truth(self.expr(s.test, fr))
            g = fr.guard
            envs = []
            for branch, cond in ((s.body, c), (s.orelse, z3.Not(c))):
                sub = Frame(self, fr.env, z3.And(g, z3.Not(fr.returned), cond))
                sub.returned = z3.BoolVal(False)
                self.block(branch, sub)
                envs.append((cond, sub))
            # merge envs and returns
            (c1, f1), (c2, f2) = envs
            for k in set(f1.env) | set(f2.env):
                a, b = f1.env.get(k), f2.env.get(k)
                if a is b: fr.env[k] = a
                elif a is None: fr.env[k] = b
                elif b is None: fr.env[k] = a
                else: fr.env[k] = ite(c1, a, b) if self._mergeable(a, b) else a
            newret = z3.Or(z3.And(c1, f1.returned), z3.And(c2, f2.returned))
            rv = None
            if f1.ret is not None and f2.ret is not None: rv = ite(z3.And(c1, f1.returned), f1.ret, f2.ret)
            elif f1.ret is not None: rv = f1.ret
            elif f2.ret is not None: rv = f2.ret
            if rv is not None:
                fr.ret = rv if fr.ret is None else ite(fr.returned, fr.ret, rv)
            fr.returned = z3.Or(fr.returned, newret)
            return
        if isinstance(s, ast.Return):
            v = self.expr(s.value, fr) if s.value is not None else None
            fr.ret = v if fr.ret is None else ite(fr.returned, fr.ret, v)
            fr.returned = z3.BoolVal(True) if True else None
            return
        if isinstance(s, ast.Raise):
            self.errors = z3.Or(self.errors, self.active(fr)); fr.returned = z3.BoolVal(True); return
        raise NotImplementedError(ast.dump(s)[:200])
    def _mergeable(self, a, b):
        return (isinstance(a, OptInt) or isinstance(b, OptInt) or a is None or b is None and False) or ((z3.is_bool(a) or isinstance(a, bool)) and (z3.is_bool(b) or isinstance(b, bool)))
    # expressions ------------------------------------------------
    def expr(self, e, fr, effect=False):
        if isinstance(e, ast.Constant): return e.value
        if isinstance(e, ast.Name): return fr.env[e.id]
        if isinstance(e, ast.Subscript):
            base = self.expr(e.value, fr); key = self.expr(e.slice, fr)
            return base[key]
        if isinstance(e, ast.BoolOp):
            # short-circuit: operand i is evaluated only when the earlier ones did not decide
            is_and = isinstance(e.op, ast.And)
            saved = fr.guard
            acc = None
            for v in e.values:
                t = truth(self.expr(v, fr))
                acc = t if acc is None else (z3.And(acc, t) if is_and else z3.Or(acc, t))
                fr.guard = z3.And(saved, acc if is_and else z3.Not(acc))
            fr.guard = saved
            return acc
        if isinstance(e, ast.UnaryOp) and isinstance(e.op, ast.Not):
            return z3.Not(truth(self.expr(e.operand, fr)))
        if isinstance(e, ast.Compare):
            assert len(e.ops) == 1
            a = self.expr(e.left, fr); b = self.expr(e.comparators[0], fr); op = e.ops[0]
            return self.compare(a, op, b, fr)
        if isinstance(e, ast.Call):
            return self.call(e, fr, effect)
        if isinstance(e, ast.Attribute):
            chain = self.chain(e)
            if chain in self.handlers: return self.handlers[chain](self, fr)
        if isinstance(e, ast.JoinedStr): return "<fstring>"
        raise NotImplementedError(ast.dump(e)[:200])
    def compare(self, a, op, b, fr):
        if isinstance(op, (ast.Is, ast.IsNot)):
            if b is None and isinstance(a, OptInt): r = a.isnone
            elif z3.is_bool(a) or isinstance(a, bool) or z3.is_bool(b) or isinstance(b, bool):
                r = tobool(a) == tobool(b)
            else: raise NotImplementedError
            return r if isinstance(op, ast.Is) else z3.Not(r)
        if isinstance(a, OptInt) or isinstance(b, OptInt):
            a, b = lift(a), lift(b)
            if isinstance(op, (ast.Eq, ast.NotEq)):
                r = z3.Or(z3.And(a.isnone, b.isnone), z3.And(z3.Not(a.isnone), z3.Not(b.isnone), a.val == b.val))
                return r if isinstance(op, ast.Eq) else z3.Not(r)
            # ordering with None raises TypeError
            self.errors = z3.Or(self.errors, z3.And(self.active(fr), z3.Or(a.isnone, b.isnone)))
            return {ast.GtE: a.val >= b.val, ast.LtE: a.val <= b.val, ast.Gt: a.val > b.val, ast.Lt: a.val < b.val}[type(op)]
        if isinstance(op, ast.Eq): return tobool(a) == tobool(b)
        if isinstance(op, ast.NotEq): return tobool(a) != tobool(b)
        raise NotImplementedError
    def chain(self, e):
        parts = []
        while True:
            if isinstance(e, ast.Attribute): parts.append(e.attr); e = e.value
            elif isinstance(e, ast.Call): parts.append("()"); e = e.func
            elif isinstance(e, ast.Name): parts.append(e.id); break
            else: parts.append("?"); break
        return ".".join(reversed(parts))
    def call(self, e, fr, effect):
        chain = self.chain(e.func)
        for prefix in self.handlers.get("__ignore__", ()):
            if chain.startswith(prefix): return None
        args = [self.expr(a, fr) for a in e.args]
        kwargs = {k.arg: self.expr(k.value, fr) for k in e.keywords}
        if chain in self.handlers:
            return self.handlers[chain](self, fr, *args, **kwargs)
        if chain.startswith("self.") and chain.count(".") == 1 and hasattr(self.cls, chain[5:]):
            # short-circuit semantic: evaluation only happens if reached; since callee is pure except handlers guarded by fr, pass guard
            sub_guard = self.active(fr)
            return self.call_method(chain[5:], args, kwargs, sub_guard)
        raise NotImplementedError("call " + chain)
