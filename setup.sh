#!/bin/sh
# Offline build of the verification environment: an overlay venv of /venv (python 3.12,
# has csvpath's dependencies) + CrossHair/z3 from the offline wheelhouse. /repo is put on
# sys.path through a .pth so checks always import the *current working tree*.
set -e
cd "$(dirname "$0")"
V=/verif/.venv
if [ ! -x "$V/bin/python" ] || ! "$V/bin/python" -c "import crosshair, z3, csvpath" 2>/dev/null; then
  rm -rf "$V"
  /venv/bin/python -m venv "$V"
  SP=$("$V/bin/python" -c "import sysconfig; print(sysconfig.get_paths()['purelib'])")
  printf '%s\n%s\n' "import site; site.addsitedir('/venv/lib/python3.12/site-packages')" "/repo" > "$SP/verif_overlay.pth"
  PIP_NO_INDEX=1 "$V/bin/python" -m pip install -q --no-index --find-links /opt/veriftools/wheels crosshair-tool
fi
"$V/bin/python" -c "import crosshair, z3, csvpath, lark; print('verif env ok: crosshair', crosshair.__version__, 'z3', z3.get_version_string())"
mkdir -p /verif/evidence /verif/replays /verif/.scratch
